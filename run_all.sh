#!/bin/sh
# run every check (default: quick tier) and print one line per property
tier=${1:-quick}
cd /verif
for n in 01 02 03 04 05 06 07 08 09 10 11 12 13 14 15 16 17 18 19 20; do
  s=$(date +%s)
  out=$(./check C$n --tier $tier 2>&1); rc=$?
  e=$(date +%s)
  echo "C$n rc=$rc $((e-s))s $(echo "$out" | grep -E '^(OK|VIOLATION|MACHINERY)' | head -1 | cut -c1-160) known=$(echo "$out" | grep -c '^KNOWN-FINDING') drift=$(echo "$out" | grep -c '^DRIFT')"
done
