#!/bin/sh
# Offline setup: nothing to build (TLA+ modules are interpreted by TLC, the harness is
# Python run from /venv against /repo's working tree).  Sanity-check the toolchain.
set -e
cd /verif
mkdir -p gen out evidence
java -cp /opt/veriftools/tla/tla2tools.jar tlc2.TLC -h >/dev/null 2>&1 || true
PYTHONPATH=/repo:/verif /venv/bin/python -c "import flox, dask, numpy, pandas, harness.tlaval, harness.project; print('setup ok: flox from', flox.__file__)"
