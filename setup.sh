#!/bin/sh
# Offline setup: nothing to compile (TLA+ modules are interpreted by TLC, the harness is Python run
# from /venv against /repo's working tree).  Sanity-check the toolchain and self-test the oracle:
# spec/Ref.tla is evaluated by TLC against REAL NumPy / pandas answers (exit 2 on a transcription error).
set -e
cd /verif
mkdir -p gen out/work evidence
export PYTHONPATH=/repo:/verif PYTHONHASHSEED=0 PYTHONWARNINGS=ignore
/venv/bin/python -c "import flox, dask, numpy, pandas, xarray, harness.tlaval, harness.project; print('setup: flox from', flox.__file__)"
/venv/bin/python -m harness.selftest 2>&1 | grep -E "^selftest|ORACLE-MISMATCH|MACHINERY" 
