"""developer aid: summarise out/violations_<prop>.json  (triage.py C05 [maxclasses] [key,key,...])"""
import collections, json, sys
prop = sys.argv[1]
maxc = int(sys.argv[2]) if len(sys.argv) > 2 else 12
keys = sys.argv[3].split(",") if len(sys.argv) > 3 else ["func", "engine", "method", "min_count"]
vs = json.load(open(f"/verif/out/violations_{prop}.json"))
c = collections.Counter(); ex = {}
for v in vs:
    k = (v["clause"],) + tuple(str(v["case"].get(x)) for x in keys)
    c[k] += 1; ex.setdefault(k, v)
print(len(vs), "violations,", len(c), "classes by", keys)
for k, n in sorted(c.items(), key=lambda kv: -kv[1])[:maxc]:
    v = ex[k]; cs = v["case"]
    print(n, k, "|", {a: cs.get(a) for a in ("vals", "codes", "req", "sort", "fill", "chunks", "label_kind", "reindex", "by_dask", "dtype", "q") if cs.get(a) is not None}, "|", json.dumps(v["detail"])[:220])
