"""developer aid: summarise out/violations_<prop>.json"""
import collections, json, sys
prop = sys.argv[1]
keys = sys.argv[2].split(",") if len(sys.argv) > 2 else ["func", "engine", "dtype", "method"]
vs = json.load(open(f"/verif/out/violations_{prop}.json"))
c = collections.Counter(); ex = {}
for v in vs:
    k = (v["clause"],) + tuple(str(v["case"].get(x)) for x in keys)
    c[k] += 1; ex.setdefault(k, v)
for k, n in sorted(c.items(), key=lambda kv: -kv[1]):
    v = ex[k]
    case = {a: b for a, b in v["case"].items() if a not in ("msg",)}
    print(n, k, "\n    ", json.dumps(case)[:700], "\n     detail:", json.dumps(v["detail"])[:400])
