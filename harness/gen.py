"""Finite, enumerated case spaces shared by the drivers.  VERIF_SEED never
changes *what* the space is, only which part of a larger finite space is
visited in the time budget."""
from __future__ import annotations

import itertools

NAN = [0, 0]
PINF = [1, 0]
NINF = [-1, 0]


def iv(n):
    return [n, 1]


# alphabets (abstract values)
ALPHA_F8 = [iv(-2), iv(-1), iv(0), iv(1), iv(3), NAN, PINF, NINF]
ALPHA_F8_FINITE = [iv(-2), iv(-1), iv(0), iv(1), iv(3), NAN]
ALPHA_F8_HALF = [iv(-2), iv(0), iv(1), [1, 2], NAN]
ALPHA_INT = [iv(-2), iv(-1), iv(0), iv(1), iv(3)]
ALPHA_I1 = [iv(-128), iv(-2), iv(0), iv(1), iv(127)]
ALPHA_U1 = [iv(0), iv(1), iv(3), iv(200), iv(255)]
ALPHA_BOOL = [iv(0), iv(1)]
ALPHA_TIES = [iv(1), iv(2), NAN]


def seqs(alpha, n):
    return [list(s) for s in itertools.product(alpha, repeat=n)]


def seqs_upto(alpha, nmax, nmin=1):
    out = []
    for n in range(nmin, nmax + 1):
        out.extend(seqs(alpha, n))
    return out


def compositions(n):
    """all ordered ways to cut n into positive chunk sizes"""
    if n == 0:
        return [[]]
    out = []
    for first in range(1, n + 1):
        for rest in compositions(n - first):
            out.append([first] + rest)
    return out


# label (code) patterns per length: interleaved, unsorted, with a missing (-1)
# or an extra group.  Token order is the label order.
def code_patterns(n, with_missing=True, max_groups=3):
    base = {
        1: [[0], [1]],
        2: [[0, 0], [0, 1], [1, 0]],
        3: [[0, 0, 0], [0, 1, 0], [1, 0, 0], [2, 0, 2], [0, 1, 2]],
        4: [[0, 0, 0, 0], [0, 1, 0, 1], [1, 0, 0, 1], [2, 0, 2, 0], [1, 1, 0, 0], [0, 0, 1, 2]],
        5: [[0, 0, 0, 0, 0], [0, 1, 0, 1, 0], [1, 0, 0, 1, 1], [2, 0, 1, 0, 2], [1, 1, 0, 0, 0]],
        6: [[0, 0, 0, 0, 0, 0], [0, 1, 0, 1, 0, 1], [1, 0, 0, 1, 1, 0], [2, 0, 1, 0, 2, 1], [1, 1, 1, 0, 0, 0]],
    }
    miss = {
        1: [[-1]],
        2: [[0, -1], [-1, 0]],
        3: [[0, -1, 0], [-1, 1, 0]],
        4: [[0, -1, 0, 1], [-1, 0, 0, -1]],
        5: [[0, -1, 0, 1, 1], [1, 0, -1, 0, 1]],
        6: [[0, -1, 0, 1, 1, 0], [1, 0, -1, 0, 1, -1]],
    }
    out = [p for p in base.get(n, []) if max(p) < max_groups]
    if with_missing:
        out += miss.get(n, [])
    return out


def all_codes(n, ngroups, with_missing=False):
    toks = list(range(ngroups)) + ([-1] if with_missing else [])
    return [list(c) for c in itertools.product(toks, repeat=n)]


def pick(rng, items, k):
    """deterministic sample of at most k items (all when fewer)"""
    items = list(items)
    if len(items) <= k:
        return items
    return rng.sample(items, k)


class Space:
    """A finite product space described by its dimensions; cases are built by
    `build(**choice)` (None = combination not applicable).  Enumerated lazily so
    that very large finite spaces can be sampled (seeded) without being
    materialised."""

    def __init__(self, name, dims: dict, build):
        self.name = name
        self.dims = {k: list(v) for k, v in dims.items()}
        self.build = build
        self.size = 1
        for v in self.dims.values():
            self.size *= len(v)

    def decode(self, idx):
        choice = {}
        for k, v in self.dims.items():
            idx, r = divmod(idx, len(v))
            choice[k] = v[r]
        return choice

    def all(self):
        out = []
        for i in range(self.size):
            c = self.build(**self.decode(i))
            if c is not None:
                out.extend(c if isinstance(c, list) else [c])
        return out

    def sample(self, rng, k):
        if self.size <= k:
            return self.all()
        out = []
        seen = set()
        tries = 0
        while len(out) < k and tries < 20 * k:
            tries += 1
            i = rng.randrange(self.size)
            if i in seen:
                continue
            seen.add(i)
            c = self.build(**self.decode(i))
            if c is not None:
                out.extend(c if isinstance(c, list) else [c])
        return out


def overlap_layout(seed, nblocks=12, nlabels=5, blocksize=3):
    """a label layout over `nblocks` equal blocks in which every label lives in a few blocks and labels
    overlap only partially (the situation in which the cohort planner MERGES cohorts).  Deterministic in
    `seed` (the family seed=0..K is part of the enumerated case space)."""
    import random

    rng = random.Random(1000 + seed)
    where = {}
    for lab in range(nlabels):
        k = rng.choice([2, 3, 3, 4])
        start = rng.randrange(nblocks)
        blocks = {(start + rng.choice([0, 1, 2, 3, 5]) * j) % nblocks for j in range(k)}
        where[lab] = blocks
    codes = []
    for b in range(nblocks):
        here = [lab for lab in range(nlabels) if b in where[lab]] or [rng.randrange(nlabels)]
        for j in range(blocksize):
            codes.append(here[(j + b) % len(here)])
    return codes, [blocksize] * nblocks
