"""code -> spec on the repository's OWN test-suite: run (part of) it with the FLOX_VERIF hook
recording every groupby_reduce call (configuration scalars, outcome, resolved plan) and
validate every recorded call against Plan.tla with spec/TraceCalls.tla.

The suite's assertions say nothing about which strategy / engine / reindex mode a call
resolved to, nor about the class of a refusal; the trace specification checks exactly that
for every call the tests make (tens of thousands), not only for the cells my own driver
enumerates.  All clauses are model-level (DRIFT): the calls come from a passing suite.
"""
from __future__ import annotations

import ast
import json
import os
import subprocess
import tempfile

ARG = {"argmax", "argmin", "nanargmax", "nanargmin"}
BWONLY = {"median", "nanmedian", "quantile", "nanquantile", "mode", "nanmode"}
KNOWN = ARG | BWONLY | {"first", "last", "nanfirst", "nanlast", "sum", "nansum", "prod", "nanprod", "mean", "nanmean", "var", "nanvar", "std", "nanstd",
                        "max", "nanmax", "min", "nanmin", "count", "any", "all"}


def record(select: list[str], *, jobs=8, timeout=1500) -> tuple[list, str]:
    """run pytest on /repo with call tracing; returns (events, pytest tail)"""
    os.makedirs("/verif/out/work", exist_ok=True)
    with tempfile.TemporaryDirectory(prefix="calls-", dir="/verif/out/work") as td:
        path = os.path.join(td, "calls.ndjson")
        env = dict(os.environ, FLOX_VERIF="1", FLOX_VERIF_TRACE=path, PYTHONPATH="/repo", DASK_NUM_WORKERS="2", OMP_NUM_THREADS="1", NUMBA_NUM_THREADS="1")
        cmd = ["/venv/bin/python", "-m", "pytest", "-q", "-p", "no:cacheprovider", "-p", "no:randomly", "-n", str(jobs), "--timeout=600", *select]
        try:
            p = subprocess.run(cmd, cwd="/repo", env=env, stdout=subprocess.PIPE, stderr=subprocess.STDOUT, text=True, timeout=timeout)
            tail = "\n".join(p.stdout.splitlines()[-3:])
        except subprocess.TimeoutExpired:
            tail = "TIMEOUT"
        events = []
        if os.path.exists(path):
            for line in open(path):
                try:
                    events.append(json.loads(line))
                except ValueError:
                    pass  # a torn line of concurrent appends (not observed; lines are far below PIPE_BUF)
    return events, tail


_nanskip_cache: dict = {}


def nanskip(func, kind, fill, mc):
    """_choose_engine's has_blockwise_nan_skipping, asked of the live registry"""
    key = (func, kind, fill, mc)
    if key not in _nanskip_cache:
        import warnings

        import numpy as np

        from flox.aggregations import _initialize_aggregation

        warnings.filterwarnings("ignore")
        dt = {"f": np.dtype("f8"), "b": np.dtype(bool), "i": np.dtype("i8"), "u": np.dtype("u8")}.get(kind, np.dtype("f8"))
        fk = {"q": 0.5} if "quantile" in func else None
        try:
            agg = _initialize_aggregation(func, None, dt, np.nan if fill else None, mc, fk)
            v = (agg.chunk[0] is None and "nan" in agg.name) or any(isinstance(f, str) and "nan" in f for f in agg.chunk)
        except Exception:  # noqa: BLE001
            v = None
        _nanskip_cache[key] = v
    return _nanskip_cache[key]


def _lit(v):
    if isinstance(v, str) and v[:1] in "[(":
        try:
            return ast.literal_eval(v)
        except (ValueError, SyntaxError):
            return v
    return v


def to_records(events) -> tuple[list, dict, dict]:
    """-> (distinct TraceCalls records, multiplicity per record id, skipped counts)"""
    calls, plans = {}, {}
    for e in events:
        k = (e.get("pid"), e.get("cid"))
        if e.get("ev") == "call":
            calls[k] = e
        elif e.get("ev") == "plan":
            plans[k] = e
    recs, mult, skipped, seen = [], {}, {}, {}

    def skip(why):
        skipped[why] = skipped.get(why, 0) + 1

    for k, c in calls.items():
        if "describe_error" in c:
            skip("describe_error")
            continue
        func = c["func"]
        if func not in KNOWN:
            skip("custom aggregation / unknown func")
            continue
        if c["reindex"] == "strategy":
            skip("ReindexStrategy object passed")
            continue
        if c["arr_chunked"] and not c["arr_dask"]:
            skip("non-dask chunked array")
            continue
        p = plans.get(k)
        axis = _lit(c["axis"])
        nb = _lit(c["numblocks"])
        by_ndim = p["by_ndim"] if p else c["by_ndim"]
        nax = p["nax"] if p else (len(axis) if axis is not None else by_ndim)
        kind = c["kind"]
        if kind == "ModuleNotFoundError":
            kind = "ImportError"
        fclass = "arg" if func in ARG else "bwonly" if func in BWONLY else "nanfl" if func in ("nanfirst", "nanlast") else "fl" if func in ("first", "last") else "plain"
        mc = c["min_count"]
        mc_eff = mc if mc is not None else (1 if (nax < by_ndim or (c["fill"] and c["expected"])) else 0)
        ns = nanskip(func, c["arr_kind"], c["fill"], mc_eff)
        if ns is None:
            skip("aggregation cannot be initialised")
            continue
        cfg = {"fclass": fclass, "engine": c["engine"] or "none", "method": c["method"] or "none",
               "reindex": {None: "none", True: "true", False: "false"}[c["reindex"]], "arrDask": bool(c["arr_dask"]), "byDask": bool(c["by_dask"]),
               "expected": bool(c["expected"]), "dtypeArg": bool(c["dtype_arg"]), "floatData": c["arr_kind"] == "f",
               "allAxes": nax == by_ndim, "byNdim": min(int(by_ndim), 2),
               "pref": (p.get("preferred") or "map-reduce") if p else "map-reduce", "hasCohorts": bool(p and p["ncohorts"]), "hasCohortsM": bool(p and p["ncohorts"]),
               "oneBlock": bool(nb is not None and all(n == 1 for n in nb[len(nb) - nax:]))}
        rec = {"cfg": cfg, "kind": kind, "hasplan": p is not None, "plan": p["method"] if p else "-", "engine": p["engine"] if p else "-",
               "rb": bool(p["reindex_blockwise"]) if p and p["reindex_blockwise"] is not None else False, "nanskip": bool(ns), "boolfamily": func in ("any", "all")}
        sig = json.dumps(rec, sort_keys=True)
        if sig not in seen:
            rec = dict(rec, id=len(recs), example={"func": func, "nby": c["nby"], "isbin": c["isbin"], "arr_ndim": c["arr_ndim"], "numblocks": nb, "axis": axis, "min_count": mc, "fill": c["fill"]})
            seen[sig] = rec["id"]
            recs.append(rec)
        mult[seen[sig]] = mult.get(seen[sig], 0) + 1
    return recs, mult, skipped
