"""One grouped-reduction call on real flox, from an abstract case to a trace
record (the `Return` linearisation point of a public API call).

Abstract case (JSON-able, also the content of replay files):
  func, vals [[n,d],...], dtype, codes [token | -1], label_kind, req (None | tokens),
  sort, fill (None | [n,d]), min_count (None | int), engine, method, chunks (None | sizes),
  by_dask, reindex, ddof, q (None | [n,d]), isbin ... (see build_kwargs)
Tokens are order-preserving stand-ins for label values (LABELS[kind][token]).
"""
from __future__ import annotations

import math
import warnings

import numpy as np

from .project import NAN, ProjectionError, pv, pv_out, to_float

LABELS = {
    "int": [3, 7, 8, 20, 21, 34],
    "float": [0.5, 1.5, 2.0, 10.0, 10.5, 33.0],
    "str": ["a", "b", "cc", "d", "ee", "f"],
    "range": [0, 1, 2, 3, 4, 5],
    # signed integer labels (token 2 is label 0): requested labels may be given as a pandas RangeIndex
    "srange": [-3, -2, 0, 1, 2, 3],
    # a wide universe of float levels (token t -> t/2): many requested labels at once
    "wide": [t * 0.5 for t in range(80)],
    "widestr": [f"k{t:02d}" for t in range(80)],
}

VAR_FUNCS = {"var", "nanvar"}
STD_FUNCS = {"std", "nanstd"}
ARG_FUNCS = {"argmax", "argmin", "nanargmax", "nanargmin"}
QUANT_FUNCS = {"quantile", "nanquantile"}
CLEAN_REFUSALS = ("ValueError", "NotImplementedError", "ImportError")


def concretize(vals, dtype: str) -> np.ndarray:
    dt = np.dtype(dtype)
    if dt.kind == "f":
        return np.array([to_float(v) for v in vals], dtype=dt)
    if dt.kind == "b":
        return np.array([bool(v[0]) for v in vals], dtype=bool)
    if dt.kind in "iu":
        for v in vals:
            if v[1] != 1:
                raise ValueError(f"non-integer {v} for dtype {dtype}")
        return np.array([v[0] for v in vals], dtype=np.int64).astype(dt)        # (+ case["int_offset"], see run_reduce_case)
    if dt.kind in "Mm":
        out = np.array([np.iinfo(np.int64).min if v[1] == 0 else v[0] for v in vals], dtype=np.int64)
        return out.view(dt)
    raise ValueError(dtype)


def label_array(codes, kind: str) -> np.ndarray:
    tab = LABELS[kind]
    if kind == "float":
        return np.array([math.nan if c < 0 else tab[c] for c in codes], dtype=float)
    if any(c < 0 for c in codes):
        raise ValueError("missing labels need label_kind='float'")
    if kind == "wide":
        return np.array([math.nan if c < 0 else tab[c] for c in codes], dtype=float)
    if kind in ("str", "widestr"):
        return np.array([tab[c] for c in codes], dtype=object)
    return np.array([tab[c] for c in codes], dtype=np.int64)


def label_tokens(groups, kind: str) -> list[int]:
    """inverse of label_array for returned group labels; unknown labels -> -99"""
    tab = LABELS[kind]
    out = []
    for g in np.asarray(groups).reshape(-1).tolist():
        if isinstance(g, float) and math.isnan(g):
            out.append(-1)
            continue
        try:
            out.append(tab.index(g))
        except ValueError:
            out.append(-99)
    return out


def fill_concrete(fill):
    if fill is None:
        return None
    if isinstance(fill, bool):
        return fill
    return to_float(fill) if fill[1] != 1 else fill[0]


def build_kwargs(case) -> dict:
    kw = dict(func=case["func"])
    if isinstance(case["func"], str) and case["func"].startswith("user_"):
        from . import userlib

        kw["func"] = userlib.USER_AGGS[case["func"]][0]
    kind = case.get("label_kind", "int")
    if case.get("req") is not None:
        tab = LABELS[kind]
        vals = [tab[t] for t in case["req"]]
        kw["expected_groups"] = np.array(vals, dtype=object if kind in ("str", "widestr") else None)
        if case.get("req_form") == "index":      # the same labels handed over as a pandas Index / a plain list
            import pandas as pd

            kw["expected_groups"] = pd.Index(kw["expected_groups"])
        elif case.get("req_form") == "list" and kind not in ("str", "widestr"):
            kw["expected_groups"] = list(vals)
        if case.get("req_range"):
            # the same labels as a pandas RangeIndex (they must form an arithmetic progression)
            import pandas as pd

            step = vals[1] - vals[0] if len(vals) > 1 else 1
            # (a negative step gives a DESCENDING RangeIndex: with sort=True the labels come back ascending all the same)
            assert step != 0 and all(b - a == step for a, b in zip(vals, vals[1:])), vals
            kw["expected_groups"] = pd.RangeIndex(vals[0], vals[-1] + step, step)
    if not case.get("sort", True):
        kw["sort"] = False
    if case.get("fill") is not None:
        kw["fill_value"] = False if case["fill"] == "False" else fill_concrete(case["fill"])
    if case.get("min_count") is not None:
        kw["min_count"] = case["min_count"]
    for k in ("engine", "method", "reindex"):
        if case.get(k) is not None:
            kw[k] = case[k]
    if case.get("out_dtype") is not None:
        kw["dtype"] = case["out_dtype"]
    fk = {}
    if case["func"] in VAR_FUNCS | STD_FUNCS and case.get("ddof") is not None:
        fk["ddof"] = case["ddof"]
    if case["func"] in QUANT_FUNCS:
        q = case["q"]
        fk["q"] = q[0] / q[1]
    if fk:
        kw["finalize_kwargs"] = fk
    return kw


def project_raw(result, tol=1e-9):
    """raw projection, slot by slot; a value that is not a small rational becomes 'unspecified'"""
    out = []
    for x in np.asarray(result).reshape(-1):
        try:
            out.append(pv(x, tol))
        except ProjectionError:
            out.append([0, -1])
    return out


def project_out(func: str, result, tol=1e-9):
    res = np.asarray(result)
    if func in STD_FUNCS:
        with np.errstate(all="ignore"):
            res = res.astype(float) ** 2
    return [pv_out(x, tol) for x in res.reshape(-1)]


def run_reduce_case(case: dict) -> dict:
    """Call real flox; return the case augmented with `groups`, `out` (abstract)
    or `exc`.  1-D problems only (higher-dimensional drivers slice first)."""
    import dask
    import dask.array as da

    from flox.core import groupby_reduce

    warnings.filterwarnings("ignore")
    kind = case.get("label_kind", "int")
    array = concretize(case["vals"], case.get("dtype", "f8"))
    if case.get("int_offset"):
        # an order- and tie-preserving translation to huge integers (beyond 2**53, where float64 no longer separates neighbours);
        # the abstract record keeps the small values: position-valued results are unaffected, value-valued ones are translated back
        array = array.astype(np.int64) + np.int64(case["int_offset"])
    by = label_array(case["codes"], kind)
    kw = build_kwargs(case)
    chunks = case.get("chunks")
    rec = dict(case)
    try:
        if chunks is not None:
            arr = da.from_array(array, chunks=(tuple(chunks),))
            byy = da.from_array(by, chunks=(tuple(chunks),)) if case.get("by_dask") else by
            cfg = {"scheduler": "synchronous"}
            if case.get("split_every"):
                cfg["split_every"] = case["split_every"]
            with dask.config.set(**cfg):
                result, groups = groupby_reduce(arr, byy, **kw)
                rec["lazy"] = bool(hasattr(result, "dask"))
                rec["announced_dtype"] = str(result.dtype)
                rec["announced_shape"] = [None if (isinstance(s, float) and math.isnan(s)) else int(s) for s in result.shape]
                result, groups = dask.compute(result, groups)
        else:
            result, groups = groupby_reduce(array, by, **kw)
        rec["out_dtype_seen"] = str(np.asarray(result).dtype)
        rec["groups"] = label_tokens(groups, kind)
        tol = case.get("tol") or 1e-9
        if case.get("int_offset") and case["func"] not in ARG_FUNCS and case["func"] != "count":
            result = np.asarray(result).astype(np.int64) - np.int64(case["int_offset"])
        rec["out"] = project_out(case["func"], result, tol)
        if case["func"] in STD_FUNCS:
            rec["raw"] = project_raw(result, tol)
    except ProjectionError as e:
        rec["exc"] = "ProjectionError"
        rec["msg"] = str(e)
    except Exception as e:  # noqa: BLE001
        rec["exc"] = type(e).__name__
        rec["msg"] = str(e)[:300]
    return rec


def tlc_record(rec: dict, rid: int, check_groups: bool = True) -> dict:
    """the ndjson line validated by spec/TraceReduce.tla"""
    case = rec
    fill = case.get("fill")
    if fill == "False":
        fill = [0, 1]
    return {
        "id": rid,
        "func": case["func"],
        "ddof": int(case.get("ddof") or 0),
        "q": case.get("q") or [1, 2],
        "vals": case["vals"],
        "codes": case["codes"],
        "req": {"some": case.get("req") is not None, "v": list(case.get("req") or [])},
        "sort": bool(case.get("sort", True)),
        "fill": {"some": fill is not None, "v": fill if fill is not None else NAN},
        "min_count": -1 if case.get("min_count") is None else int(case["min_count"]),
        "groups": rec["groups"],
        "out": rec["out"],
        "raw": rec.get("raw", rec["out"]),
        "gmode": ("none" if not check_groups else
                  ("perm" if (not case.get("sort", True) and case.get("req") is None and case.get("chunks") is not None) else "exact")),
    }
