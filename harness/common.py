"""Shared plumbing of the checks: context, evidence, violations / known findings,
process pool for running real flox."""
from __future__ import annotations

import hashlib
import json
import os
import random
import sys
import time
import traceback
from concurrent.futures import ProcessPoolExecutor
from pathlib import Path

VERIF = Path("/verif")
REPLAY = VERIF / "out" / "replay"
EVIDENCE = VERIF / "evidence"
FINDINGS_FILE = VERIF / "known_findings.txt"
NPROC = min(16, os.cpu_count() or 4)


class MachineryFailure(Exception):
    pass


def load_findings():
    """known_findings.txt lines:
         open: property=C06 id=F07 matcher=<name> <what fails>
         fixed: property=C14 <commit> <what failed>
       Only `open` lines suppress anything."""
    out = []
    if not FINDINGS_FILE.exists():
        return out
    for line in FINDINGS_FILE.read_text().splitlines():
        line = line.strip()
        if not line or line.startswith("#"):
            continue
        status, _, rest = line.partition(":")
        toks = rest.split()
        kv = {}
        words = []
        for t in toks:
            if "=" in t and not words and t.split("=")[0] in ("property", "id", "matcher"):
                k, v = t.split("=", 1)
                kv[k] = v
            else:
                words.append(t)
        out.append({"status": status.strip(), "property": kv.get("property"), "id": kv.get("id"),
                    "matcher": kv.get("matcher"), "what": " ".join(words)})
    return out


class Ctx:
    def __init__(self, prop: str, tier: str, seed: int, level: str = "model_checking"):
        self.prop = prop
        self.tier = tier
        self.seed = seed
        self.level = level
        self.t0 = time.time()
        self.rng = random.Random(seed)
        self.violations: list[dict] = []
        self.known_hits: dict[str, int] = {}
        self.drift: list[str] = []
        self.cov = {
            "states": 0, "transitions": 0, "traces_validated_against_impl": 0, "samples": [],
            "evaluations": 0, "distinct_nontrivial": 0, "rule": "", "exhaustive": False,
            "models": [], "replayed_behaviours": 0, "drift": 0, "known_findings_hit": {},
        }
        self.assumptions: list[str] = []
        self._nontrivial: set = set()
        self.findings = [f for f in load_findings() if f["property"] == prop and f["status"] == "open"]
        from .findings import MATCHERS

        self.matchers = dict(MATCHERS)

    # ------------------------------------------------------------ bookkeeping
    def add_model(self, name: str, res, constants: str = ""):
        """record a TLC model-checking run"""
        self.cov["states"] += res.distinct
        self.cov["transitions"] += res.generated
        self.cov["models"].append({
            "model": name, "constants": constants, "states_distinct": res.distinct,
            "states_generated": res.generated, "depth": res.depth, "wall_s": round(res.wall_s, 1),
            "coverage_actions": res.coverage or None,
        })

    def add_traces(self, n: int, stats: dict, name: str = ""):
        self.cov["traces_validated_against_impl"] += n
        self.cov["states"] += stats.get("states", 0)
        self.cov["transitions"] += stats.get("transitions", 0)
        self.cov["models"].append({"model": f"trace:{name}", "records": n, **{k: (round(v, 1) if isinstance(v, float) else v) for k, v in stats.items()}})

    def sample(self, s, limit: int = 5):
        if len(self.cov["samples"]) < limit:
            self.cov["samples"].append(s)

    def nontrivial(self, key):
        self._nontrivial.add(key)

    # ------------------------------------------------------------ violations
    def violation(self, case: dict, clause: str, detail=None):
        """a property-level clause failed on the real code for `case`"""
        for f in self.findings:
            pred = self.matchers.get(f["matcher"])
            if pred is not None:
                try:
                    hit = bool(pred(case, clause, detail))
                except Exception:
                    hit = False
                if hit:
                    self.known_hits[f["id"]] = self.known_hits.get(f["id"], 0) + 1
                    return "known"
        rec = {"property": self.prop, "clause": clause, "case": case, "detail": detail, "seed": self.seed, "tier": self.tier}
        self.violations.append(rec)
        return "violation"

    def finish(self) -> int:
        wall = time.time() - self.t0
        EVIDENCE.mkdir(exist_ok=True)
        self.cov["distinct_nontrivial"] = max(self.cov["distinct_nontrivial"], len(self._nontrivial))
        self.cov["drift"] = len(self.drift)
        self.cov["known_findings_hit"] = dict(self.known_hits)
        if self.cov["states"] < 1 or self.cov["transitions"] < 1:
            # never write evidence that claims model checking without any
            print(f"MACHINERY-FAILURE property={self.prop}: no TLC states explored", flush=True)
            return 2
        if not self.cov["samples"]:
            print(f"MACHINERY-FAILURE property={self.prop}: no samples recorded", flush=True)
            return 2
        ev = {
            "property_id": self.prop, "tier": self.tier, "seed": self.seed, "level": self.level,
            "coverage": self.cov, "assumptions": self.assumptions, "wall_s": round(wall, 2),
            "violations": len(self.violations),
        }
        (EVIDENCE / f"{self.prop}.json").write_text(json.dumps(ev, indent=1, default=str) + "\n")
        # the last run of EACH tier is kept as well (evidence/<id>.json is simply the most recent run)
        (EVIDENCE / "by_tier" / self.tier).mkdir(parents=True, exist_ok=True)
        (EVIDENCE / "by_tier" / self.tier / f"{self.prop}.json").write_text(json.dumps(ev, indent=1, default=str) + "\n")
        for f in self.findings:
            if f["id"] in self.known_hits:
                print(f"KNOWN-FINDING: property={self.prop} {f['id']} {f['what']} ({self.known_hits[f['id']]} cases)", flush=True)
        for d in self.drift[: int(os.environ.get("VERIF_DRIFT_LINES", "20"))]:
            print(f"DRIFT property={self.prop} {d}", flush=True)
        vfile = VERIF / "out" / f"violations_{self.prop}.json"
        if vfile.exists() and not self.violations:
            vfile.unlink()
        if self.violations:
            REPLAY.mkdir(parents=True, exist_ok=True)
            (VERIF / "out" / f"violations_{self.prop}.json").write_text(json.dumps(self.violations, default=str))
            seen = set()
            for v in self.violations[:25]:
                blob = json.dumps(v, sort_keys=True, default=str)
                h = hashlib.sha1(blob.encode()).hexdigest()[:12]
                if h in seen:
                    continue
                seen.add(h)
                path = REPLAY / f"{self.prop}-{h}.json"
                path.write_text(json.dumps(v, indent=1, default=str) + "\n")
                print(f"VIOLATION property={self.prop} replay={path} clause={v['clause']}", flush=True)
            if len(self.violations) > 25:
                print(f"... {len(self.violations) - 25} more violations of {self.prop} not listed", flush=True)
            return 1
        print(f"OK property={self.prop} tier={self.tier} seed={self.seed} states={self.cov['states']} "
              f"traces={self.cov['traces_validated_against_impl']} wall={wall:.1f}s", flush=True)
        return 0


# ------------------------------------------------------------------ pool
def _init_worker():
    import warnings

    warnings.filterwarnings("ignore")
    os.environ.setdefault("OMP_NUM_THREADS", "1")
    os.environ.setdefault("NUMBA_NUM_THREADS", "1")
    import dask

    dask.config.set(scheduler="synchronous")


def _run_chunk(args):
    modname, fname, cases = args
    import importlib

    mod = importlib.import_module(modname)
    fn = getattr(mod, fname)
    out = []
    for c in cases:
        try:
            out.append(fn(c))
        except Exception as e:  # the case function itself must catch flox's exceptions
            out.append({"_harness_error": f"{type(e).__name__}: {e}", "_tb": traceback.format_exc()[-1500:], "case": c})
    return out


def pmap(modname: str, fname: str, cases: list, nproc: int = NPROC, chunk: int | None = None) -> list:
    """run `modname.fname(case)` for all cases in a process pool (order preserved)"""
    if not cases:
        return []
    if chunk is None:
        chunk = max(1, min(200, len(cases) // (nproc * 4) + 1))
    chunks = [(modname, fname, cases[i : i + chunk]) for i in range(0, len(cases), chunk)]
    if nproc <= 1 or len(cases) < 8:
        _init_worker()
        return [r for ch in chunks for r in _run_chunk(ch)]
    import multiprocessing as mp

    with ProcessPoolExecutor(max_workers=nproc, mp_context=mp.get_context("forkserver"), initializer=_init_worker) as ex:
        res = list(ex.map(_run_chunk, chunks))
    return [r for ch in res for r in ch]


def harness_errors(records: list) -> list:
    return [r for r in records if isinstance(r, dict) and "_harness_error" in r]
