"""C19 — unsupported requests refused cleanly; the automatic plan works wherever
map-reduce does.

M  MC_Plan: the transcribed decision logic (Plan.tla) over the full configuration
   product (201 600 consistent cells): Total, AutoWorksWhereMapReduceDoes,
   AutoPlanPreconditions.
T  every cell (quick: seeded subset; thorough: all) is executed on real flox on
   ordinary and degenerate inputs under all four `method` values; the outcome
   vector is validated by TracePlan.tla against the property relation (clean refusal
   classes; map-reduce ok => auto ok and equal; explicit plans equal or refused), and
   against Plan!Outcome (DRIFT only).  Accepted 1-D results are also validated
   against Ref by TraceReduce.tla.
"""
from __future__ import annotations

import json
import warnings

import numpy as np

from .. import gen, redcase, tlc
from ..common import MachineryFailure, harness_errors, pmap
from ..project import pv_out
from . import shared
from .c02 import confined

FUNCS = {"sum": "plain", "nanmean": "plain", "count": "plain", "nanmax": "plain", "var": "plain", "argmax": "arg", "nanargmin": "arg",
         "nanfirst": "nanfl", "nanlast": "nanfl", "first": "fl", "last": "fl", "median": "bwonly", "nanquantile": "bwonly"}
LAYOUTS = {
    "interleaved": ([0, 1, 0, 1, 2, 2, 0, 1], [2, 2, 2, 2]),
    "confined": ([0, 0, 1, 1, 2, 2, 2, 2], [2, 2, 4]),
    "oneblock": ([1, 0, 2, 0, 1, 2], [6]),
    "deep": ([0, 1, 0, 1, 0, 1, 0, 1, 0, 1], [1] * 10),      # every cohort spans more blocks than split_every (4): two tree levels
    "everywhere": ([0, 1, 0, 1, 0, 1], [2, 2, 2]),
    "missing": ([0, -1, 1, -1, 0, 1], [3, 3]),
    "allmissing-chunk": ([-1, -1, 0, 1, 0, 1], [2, 2, 2]),
    "nolabel": ([-1, -1, -1, -1], [2, 2]),                    # every label missing: no group at all
}
METHODS = [None, "map-reduce", "cohorts", "blockwise"]


def factorized(codes, req):
    """codes as groupby_reduce's early factorization leaves them: position among the requested (or the found, sorted) labels"""
    if req is not None:
        return [req.index(c) if c in req else -1 for c in codes], len(req)
    present = sorted({c for c in codes if c >= 0})
    return [present.index(c) if c >= 0 else -1 for c in codes], len(present)


def planner_facts(fcodes, nlab, chunks, two_d_by, merge, rows=(1, 1)):
    """fallback when the call did not reach the 'plan' hook: ask the planner directly on the same labels and chunk grid"""
    import pandas as pd

    from flox.core import find_group_cohorts

    c = np.array(fcodes)
    grid = (tuple(chunks),)
    if two_d_by:
        c = np.stack([c, c])
        grid = (tuple(rows), tuple(chunks))
    try:
        pref, coh = find_group_cohorts(c, grid, expected_groups=pd.RangeIndex(nlab), merge=merge)
        return pref, bool(coh)
    except Exception:  # noqa: BLE001
        return "map-reduce", False


def run_plan_case(case):
    import dask
    import dask.array as da

    from flox.core import groupby_reduce

    warnings.filterwarnings("ignore")
    codes, chunks = LAYOUTS[case["layout"]]
    n = len(codes)
    dtype = case["dtype"]
    if dtype == "f8" and case["func"] != "argmax":     # argmax on groups holding NaN is unspecified (C01/C06 scope)
        vals = [gen.iv((3 * i) % 7 - 3) if i % 4 != 3 else gen.NAN for i in range(n)]
    else:
        vals = [gen.iv((3 * i) % 7 - 3) for i in range(n)]
    kind = "float" if min(codes) < 0 else "int"
    if case["expected"] == "range":
        kind = "range"          # labels 0..5 are their own tokens; requested as the pandas RangeIndex(1, 4)
    array = redcase.concretize(vals, dtype)
    by = redcase.label_array(codes, kind)
    two_d = case["shape"] != "1d"
    rows = (2,) if case.get("rowch") == "whole" else (1, 1)     # the two rows in one block or in two
    if two_d:
        array = np.stack([array, array[::-1]])
        by2 = np.stack([by, by]) if case["shape"] == "2dby" else by
    kw = {"func": case["func"]}
    req = None
    if case["expected"] == "present":
        req = sorted({c for c in codes if c >= 0})
    elif case["expected"] == "absent":
        req = [4, 5]
    elif case["expected"] == "range":
        req = [1, 2, 3]
    if req is not None:
        kw["expected_groups"] = np.array([redcase.LABELS[kind][t] for t in req])
        if case["expected"] == "range":
            import pandas as pd

            kw["expected_groups"] = pd.RangeIndex(1, 4)
        kw["fill_value"] = -1 if FUNCS[case["func"]] == "arg" else np.nan
    if case["engine"]:
        kw["engine"] = case["engine"]
    if case["reindex"] is not None:
        kw["reindex"] = case["reindex"]
    if case["dtypearg"]:
        kw["dtype"] = "float64" if FUNCS[case["func"]] != "arg" else "int64"
    if case["func"] == "nanquantile":
        kw["finalize_kwargs"] = {"q": 0.5}
    if case["func"] in ("var",):
        kw["finalize_kwargs"] = {"ddof": 1}
    if case["shape"] == "2dby":
        kw["axis"] = case["axis"]
    out = dict(case, vals=vals, codes=codes, chunks=chunks, req=req)
    outs = []
    from flox import _verif

    for m in METHODS:
        del _verif.EVENTS[:]
        try:
            if case["arrdask"]:
                ch = (rows, tuple(chunks)) if two_d else (tuple(chunks),)
                a = da.from_array(array, chunks=ch)
            else:
                a = array
            b = by2 if (two_d and case["shape"] == "2dby") else by
            if case["bydask"]:
                b = da.from_array(b, chunks=(rows, tuple(chunks)) if b.ndim == 2 else (tuple(chunks),))
            res = groupby_reduce(a, b, method=m, **kw)
            r, g = dask.compute(res[0], res[1], scheduler="synchronous")
            r = np.asarray(r)
            if case["func"] in ("var",):
                pass
            plan = [e for e in _verif.EVENTS if e["ev"] == "plan"]
            o = {"kind": "ok", "vals": [pv_out(x, 1e-9) for x in r.reshape(-1)], "shape": list(r.shape), "plan": plan[-1]["method"] if plan else "eager",
                 "engine": plan[-1]["engine"] if plan else "-", "rb": ("T" if plan[-1]["reindex_blockwise"] else "F") if plan else "-",
                 "preferred": plan[-1]["preferred"] if plan else None, "ncohorts": plan[-1]["ncohorts"] if plan else None}
            if m == "map-reduce" or (m is None and not (case["arrdask"] or case["bydask"])):
                out["groups"] = redcase.label_tokens(g, kind)
        except Exception as e:  # noqa: BLE001
            o = {"kind": type(e).__name__, "vals": [], "shape": [], "msg": str(e)[:160]}
        outs.append(o)
    out["out"] = outs
    fcodes, nlab = factorized(codes, req)
    by2d = case["shape"] == "2dby"
    pref, has = planner_facts(fcodes, nlab, chunks, by2d, False, rows)
    _, hasm = planner_facts(fcodes, nlab, chunks, by2d, True, rows)
    out["fcodes"] = fcodes
    # the planner's answer is an INPUT of Plan.tla (the planner itself is C09's subject): take it from the call's own
    # "plan" event when the call got that far (method=None consults it without merging, method='cohorts' with merging)
    if outs[0].get("preferred") is not None and not case["bydask"]:
        pref, has = outs[0]["preferred"], bool(outs[0]["ncohorts"])
    if outs[2].get("ncohorts") is not None:
        hasm = bool(outs[2]["ncohorts"])
    out["cfg"] = {"fclass": FUNCS[case["func"]], "engine": case["engine"] or "none", "method": "none",
                  "reindex": {None: "none", True: "true", False: "false"}[case["reindex"]], "arrDask": bool(case["arrdask"]), "byDask": bool(case["bydask"]),
                  "expected": req is not None, "dtypeArg": bool(case["dtypearg"]), "floatData": dtype == "f8",
                  "allAxes": not (case["shape"] == "2dby" and len(case["axis"]) == 1), "byNdim": 2 if case["shape"] == "2dby" else 1,
                  "pref": pref, "hasCohorts": has, "hasCohortsM": hasm,
                  # array.numblocks over the reduced axes: a 2-D grouper reduced over both axes also sees the two row blocks
                  "oneBlock": len(chunks) == 1 and not (by2d and len(case["axis"]) == 2 and len(rows) > 1)}
    return out


def build(func, engine, reindex, arrdask, bydask, expected, dtypearg, layout, dtype, shape, axis_i, rowch="split"):
    if shape == "2dby":
        axis = [[-1], [-2, -1]][axis_i]
    else:
        axis = None
        if axis_i:
            return None
    if shape == "1d" and rowch != "split":
        return None
    if expected == "range" and min(LAYOUTS[layout][0]) < 0:
        return None
    if expected == "present" and max(LAYOUTS[layout][0]) < 0:
        return None
    if func == "nanquantile" and engine == "numpy":
        pass
    if dtype == "i8" and min(LAYOUTS[layout][0]) < 0 and False:
        return None
    return {"func": func, "engine": engine, "reindex": reindex, "arrdask": arrdask, "bydask": bydask, "expected": expected, "dtypearg": dtypearg,
            "layout": layout, "dtype": dtype, "shape": shape, "axis": axis, "rowch": rowch}


def run(ctx):
    cfg = "SPECIFICATION Spec\nCHECK_DEADLOCK FALSE\nINVARIANT Total\nINVARIANT AutoWorksWhereMapReduceDoes\nINVARIANT AutoPlanPreconditions\n"
    res = shared.run_model(ctx, "MC_Plan", cfg, name="MC_Plan", constants="full configuration product", timeout=1800)
    if res.violated:
        st = res.error_trace[-1] if res.error_trace else {}
        raise MachineryFailure(f"MC_Plan: {res.violated} violated by configuration {st.get('c')} — confirm on the real code (harness/drivers/c19.py) and fix the code or the model")
    sp = gen.Space("cells", {"func": list(FUNCS), "engine": [None, "numpy", "flox", "numbagg", "numba"], "reindex": [None, True, False], "arrdask": [True, False],
                             "bydask": [False, True], "expected": ["none", "present", "absent", "present", "absent", "range"], "dtypearg": [False, True], "layout": list(LAYOUTS),
                             "dtype": ["f8", "i8"], "shape": ["1d", "2dbatch", "2dby"], "axis_i": [0, 1], "rowch": ["split", "whole"]}, build)
    budget = 4000 if ctx.tier == "quick" else 120000
    cases = sp.sample(ctx.rng, budget)
    # an exhaustive core that does not depend on the sample: one reduction per class, default engine / reindex / dtype, a
    # chunked array with in-memory labels, every layout x label dimensionality x axis subset x row chunking x expected_groups
    core = gen.Space("core", {"func": ["sum", "nanmax", "argmax", "nanfirst", "first", "nanquantile"], "engine": [None], "reindex": [None], "arrdask": [True],
                              "bydask": [False], "expected": ["none", "present", "absent"], "dtypearg": [False], "layout": list(LAYOUTS), "dtype": ["f8"],
                              "shape": ["1d", "2dbatch", "2dby"], "axis_i": [0, 1], "rowch": ["split", "whole"]}, build)
    seen_cells = {json.dumps(c, sort_keys=True) for c in cases}
    cases += [c for c in core.all() if json.dumps(c, sort_keys=True) not in seen_cells]
    ctx.cov["space"] = {"cells": sp.size, "visited": len(cases), "exhaustive_core": core.size}
    recs = pmap("harness.drivers.c19", "run_plan_case", cases)
    errs = harness_errors(recs)
    if errs:
        raise MachineryFailure(f"{len(errs)} harness errors, first: {errs[0]['_harness_error']}\n{errs[0].get('_tb','')}")
    lines, owner, red, red_owner = [], {}, [], {}
    kinds = {}
    for rec in recs:
        ctx.cov["evaluations"] += 1
        codes, chunks = rec["codes"], rec["chunks"]
        # explicit blockwise is in scope only on inputs meeting its precondition: every group inside one block,
        # after the automatic rechunk for sorted 1-D labels; otherwise its outcome is not looked at
        nm = [c for c in codes if c >= 0]
        bw_scope = rec["shape"] != "2dby" and (confined(codes, chunks) or (nm == sorted(nm) and min(codes) >= 0))
        outs = [dict(o) for o in rec["out"]]
        if not bw_scope:
            outs[3] = {"kind": "ValueError", "vals": [], "msg": "(out of scope: precondition of method='blockwise' not met)"}
        rec["out"] = outs
        line = {"id": len(lines), "out": [{"kind": o["kind"], "vals": o["vals"], "plan": o.get("plan", "-"), "engine": o.get("engine", "-"), "rb": o.get("rb", "-")} for o in rec["out"]],
                # has_blockwise_nan_skipping: a "nan*" block function, which includes the nanlen counter of mean/var/count and of min_count > 0
                "nanskip": rec["func"].startswith("nan") or rec["func"] in ("count", "mean", "var", "std") or (rec["req"] is not None and rec["func"] not in ("first", "last", "median"))
                           # reducing over some axes of the labels only implies min_count=1, hence the nanlen counter
                           or (rec["shape"] == "2dby" and len(rec["axis"]) == 1 and rec["func"] not in ("first", "last", "median")),
                # _issorted on the factorized labels; on a 2-D label array it compares ROWS (equal rows here: always "sorted")
                "sortedlabels": rec["shape"] == "2dby" or rec["fcodes"] == sorted(rec["fcodes"]),
                "boolfamily": rec["func"] in ("any", "all"), "confined": bw_scope and confined(codes, chunks), "skipbw": not bw_scope,
                "hascfg": True, "cfg": rec["cfg"]}
        owner[line["id"]] = rec
        lines.append(line)
        for o in rec["out"]:
            kinds[o["kind"]] = kinds.get(o["kind"], 0) + 1
        ctx.nontrivial(str([rec[k] for k in ("func", "engine", "reindex", "arrdask", "bydask", "expected", "dtypearg", "layout", "dtype", "shape", "axis", "rowch")]))
        # accepted results: also against the reference (1-D; batch rows separately; 2-D labels reduced over all axes = the
        # flattened problem in C order)
        if rec["func"] not in ("median", "nanquantile") and "groups" in rec:
            rows = None
            if rec["shape"] == "1d":
                rows = [(rec["vals"], codes)]
            elif rec["shape"] == "2dbatch":
                rows = [(rec["vals"], codes), (list(reversed(rec["vals"])), codes)]
            elif rec["shape"] == "2dby" and rec["axis"] is not None and len(rec["axis"]) == 2 and FUNCS[rec["func"]] != "arg":
                rows = [(rec["vals"] + list(reversed(rec["vals"])), codes + codes)]
            for mi, o in enumerate(rec["out"]):
                if rows is None or o["kind"] != "ok" or (METHODS[mi] == "blockwise" and not line["confined"] and (rec["arrdask"] or rec["bydask"])):
                    continue
                ng = len(rec["groups"])
                if len(o["vals"]) != ng * len(rows):
                    continue
                for ri, (rv, rc) in enumerate(rows):
                    r = {"func": rec["func"], "vals": rv, "codes": rc, "req": rec["req"], "fill": None if rec["req"] is None else ([-1, 1] if FUNCS[rec["func"]] == "arg" else [0, 0]),
                         "groups": rec["groups"], "out": o["vals"][ri * ng : (ri + 1) * ng], "ddof": 1 if rec["func"] == "var" else 0, "sort": True}
                    red_owner[len(red)] = (rec, METHODS[mi])
                    red.append(redcase.tlc_record(r, len(red), check_groups=False))
    ctx.cov["outcome_kinds"] = kinds
    ctrl = {"id": -7, "hascfg": False, "cfg": lines[0]["cfg"], "confined": True, "skipbw": False,
            "nanskip": False, "sortedlabels": False, "boolfamily": False,
            "out": [{"kind": "TypeError", "vals": [], "plan": "-", "engine": "-", "rb": "-"}, {"kind": "ok", "vals": [[1, 1]], "plan": "-", "engine": "-", "rb": "-"},
                    {"kind": "ok", "vals": [[2, 1]], "plan": "-", "engine": "-", "rb": "-"}, {"kind": "ok", "vals": [[1, 1]], "plan": "-", "engine": "-", "rb": "-"}]}
    fails, stats = tlc.validate_trace("TracePlan", lines + [ctrl], tag="c19", shards=8)
    seen = False
    for f in fails:
        if f[1] == -7:
            seen = {"clean", "auto", "explicit"} <= set(f[2])
            continue
        rec = owner[f[1]]
        prop = sorted(set(f[2]) - {"drift"})
        brief = {k: rec[k] for k in ("func", "engine", "reindex", "arrdask", "bydask", "expected", "dtypearg", "layout", "dtype", "shape", "axis", "rowch")}
        brief["outcomes"] = [{"method": str(m), "kind": o["kind"], "msg": o.get("msg", "")[:100], "vals": o["vals"][:6]} for m, o in zip(METHODS, rec["out"])]
        if prop:
            ctx.violation(brief, "plan:" + "+".join(prop), {"predicted": f[3]})
        else:
            ctx.drift.append(f"outcome kinds differ from Plan.tla: {brief['func']},{brief['engine']},{brief['reindex']},arr={brief['arrdask']},by={brief['bydask']},exp={brief['expected']},"
                             f"{brief['layout']},{brief['shape']},{brief['axis']}: real={[o['kind'] for o in rec['out']]} model={f[3]} differs={sorted(map(tuple, f[4])) if len(f) > 4 else '?'}")
    if not seen:
        raise MachineryFailure("TracePlan control (internal error + disagreeing plans) was accepted")
    ctx.add_traces(len(lines), stats, name="TracePlan")
    if red:
        fails, stats = tlc.validate_trace("TraceReduce", red, tag="c19-ref", shards=8)
        for f in fails:
            rec, m = red_owner[f[1]]
            ctx.violation({**{k: rec[k] for k in ("func", "engine", "reindex", "arrdask", "bydask", "expected", "dtypearg", "layout", "dtype")}, "method": m,
                           "vals": rec["vals"], "codes": rec["codes"], "chunks": rec["chunks"]}, "accepted-but-wrong:" + "+".join(sorted(f[2])),
                          {"expected": f[3], "got": red[f[1]]["out"]})
        ctx.add_traces(len(red), stats, name="TraceReduce(accepted cells)")
    calls_from_repo_tests(ctx)
    from . import compose

    # Flox.tla behaviours: a call the composed specification refuses (or accepts) never escapes with an internal error
    compose.replay(ctx, {"compose:unclean-exception"}, n=800 if ctx.tier == "quick" else 20000)
    ctx.sample({"cell": {k: recs[0][k] for k in ("func", "engine", "reindex", "arrdask", "bydask", "expected", "layout", "shape")}, "outcomes": [o["kind"] for o in recs[0]["out"]]})
    ctx.cov["rule"] = ("cells = 13 reductions x 5 engines x reindex{None,T,F} x array numpy|dask x labels numpy|dask x expected{none,present,absent} x dtype= x 7 layouts "
                       "(interleaved, confined, single block, deeper than split_every, every label everywhere, missing labels, all-missing chunk) x f8|i8 x 1-D|batch|2-D labels with "
                       "axis subsets; every cell under all four methods; non-trivial = distinct cell")
    ctx.assumptions += ["explicit method='blockwise' results are compared only when every group lies inside one block (documented precondition)",
                        "sparse / cubed are not installed: ReindexArrayType.SPARSE_COO cells are represented only by the ImportError refusal class"]


def calls_from_repo_tests(ctx):
    """code -> spec on the repository's own tests: every groupby_reduce call they make, recorded by the FLOX_VERIF hook,
    must be a behaviour of Plan.tla (spec/TraceCalls.tla).  Model-level: disagreements are DRIFT."""
    from .. import calltrace

    if ctx.tier == "quick":
        select = ["tests/test_core.py", "-k", "test_groupby_agg_dask or test_first_last or test_method_check or test_validate_reindex or test_choose_engine or test_cohorts_nd_by"]
    else:
        select = ["tests/test_core.py", "tests/test_xarray.py"]
    events, tail = calltrace.record(select, jobs=12)
    recs, mult, skipped = calltrace.to_records(events)
    if tail == "TIMEOUT" and len(recs) < 50:
        # an overloaded machine: this (model-level, DRIFT-only) part is skipped rather than failing the check
        ctx.assumptions.append("the traced run of the repository's tests timed out on this machine; TraceCalls validation skipped in this run")
        return
    if len(recs) < 50:
        raise MachineryFailure(f"call tracing of the repository's tests recorded only {len(recs)} distinct calls: {tail}")
    lines = [{k: v for k, v in r.items() if k != "example"} for r in recs]
    # binding control: a recorded call whose strategy is altered must be rejected
    ok = next(r for r in lines if r["hasplan"] and r["kind"] == "ok" and r["plan"] == "map-reduce")
    ctrl = dict(ok, id=-7, plan="blockwise")
    fails, stats = tlc.validate_trace("TraceCalls", lines + [ctrl], tag="c19-calls", shards=4)
    seen = False
    ncalls = sum(mult.values())
    bad_calls = 0
    for f in fails:
        if f[1] == -7:
            seen = True
            continue
        r = recs[f[1]]
        bad_calls += mult[f[1]]
        ctx.drift.append(f"repo-test call not a behaviour of Plan.tla ({'+'.join(sorted(set(f[2]) - {'joint'}))}; {mult[f[1]]} calls): observed kind={r['kind']} plan={r['plan']} "
                         f"engine={r['engine']} rb={r['rb']}; model={f[3]}; cfg={r['cfg']} e.g. {r['example']}")
    if not seen:
        raise MachineryFailure("TraceCalls binding control (altered strategy) was accepted")
    ctx.add_traces(ncalls, stats, name="TraceCalls(repository tests)")
    ctx.cov["repo_test_calls"] = {"calls": ncalls, "distinct_records": len(recs), "skipped": skipped, "calls_not_explained": bad_calls, "pytest": tail.splitlines()[-1] if tail else ""}


def replay(ctx, payload):
    case = {k: v for k, v in payload["case"].items() if k in ("func", "engine", "reindex", "arrdask", "bydask", "expected", "dtypearg", "layout", "dtype", "shape", "axis", "rowch")}
    rec = run_plan_case(case)
    print([(str(m), o["kind"], o.get("msg", "")[:80]) for m, o in zip(METHODS, rec["out"])])
    return 0
