"""C01 — eager grouped reduction = per-group NumPy reduction, on every engine.

M  spec/MC_Engines: TLC checks the transcribed engine wrappers (sort+reduceat,
   NaN substitution, count-based all-NaN detection, numpy_groupies/numbagg
   wrappers) against Ref over all value sequences of the alphabet.
T  real eager calls on every engine over an enumerated space (exhaustive core +
   seeded subset of the larger finite space) are validated line by line by
   spec/TraceReduce.tla (Return = RefGroupby(Call)).
"""
from __future__ import annotations

from .. import gen, redcase, tlc
from ..common import MachineryFailure, harness_errors, pmap
from . import shared

FUNCS = [
    "sum", "nansum", "prod", "nanprod", "mean", "nanmean", "var", "nanvar", "std", "nanstd",
    "max", "nanmax", "min", "nanmin", "argmax", "nanargmax", "argmin", "nanargmin",
    "first", "nanfirst", "last", "nanlast", "count",
]
BOOL_FUNCS = ["any", "all"]
ENGINES = [None, "numpy", "numba", "flox", "numbagg"]


def supported(func, engine):
    if engine == "flox" and func in redcase.ARG_FUNCS:
        return False  # documented refusal (NotImplementedError), see C19
    return True


def make_cases(alpha, dtype, nmax, funcs, patterns_for):
    cases = []
    for n in range(1, nmax + 1):
        for vals in gen.seqs(alpha, n):
            for codes in patterns_for(n):
                kind = "float" if min(codes) < 0 else "int"
                for func in funcs:
                    ddofs = [0, 1] if func in redcase.VAR_FUNCS | redcase.STD_FUNCS else [None]
                    for ddof in ddofs:
                        for engine in ENGINES:
                            if not supported(func, engine):
                                continue
                            cases.append({"func": func, "vals": vals, "dtype": dtype, "codes": codes,
                                          "label_kind": kind, "engine": engine, "ddof": ddof})
    return cases


def space(ctx):
    core, rest = [], []
    pat = lambda n: gen.code_patterns(n)  # noqa: E731
    pat_nomiss = lambda n: gen.code_patterns(n, with_missing=False)  # noqa: E731
    core += make_cases(gen.ALPHA_F8, "f8", 2, FUNCS, pat)
    rest += [c for c in make_cases(gen.ALPHA_F8, "f8", 3, FUNCS, pat) if len(c["vals"]) == 3]
    core += make_cases(gen.ALPHA_INT, "i8", 2, FUNCS, pat_nomiss)
    rest += [c for c in make_cases(gen.ALPHA_INT, "i8", 3, FUNCS, pat) if len(c["vals"]) == 3]
    core += make_cases(gen.ALPHA_BOOL, "b1", 2, BOOL_FUNCS + ["sum", "count", "max", "min", "first", "last", "mean"], pat_nomiss)
    rest += [c for c in make_cases(gen.ALPHA_BOOL, "b1", 4, BOOL_FUNCS + ["sum", "nansum", "count", "max", "min", "first", "last", "mean", "argmax"], pat) if len(c["vals"]) >= 3]
    # narrow / unsigned / float32 inputs: small enough to be exhaustive
    core += make_cases(gen.ALPHA_I1, "i1", 2, ["sum", "nansum", "prod", "max", "min", "mean", "count", "first", "last", "argmax", "argmin", "var", "nanstd"], pat_nomiss)
    core += make_cases(gen.ALPHA_U1, "u1", 2, ["sum", "nansum", "prod", "nanprod", "max", "min", "mean", "count", "first", "last", "var", "nanvar", "std", "nanstd"], pat_nomiss)
    core += make_cases([gen.iv(7), gen.iv(2), gen.iv(300), gen.iv(0)], "u2", 2, ["sum", "nansum", "mean", "var", "nanvar", "std", "max", "argmin"], pat_nomiss)
    core += make_cases([gen.iv(9), gen.iv(4), gen.iv(1000)], "u4", 2, ["sum", "prod", "mean", "var", "nanstd", "min"], pat_nomiss)
    core += make_cases(gen.ALPHA_INT, "i4", 2, ["sum", "prod", "mean", "var", "max", "argmin", "nanlast"], pat_nomiss)
    core += make_cases(gen.ALPHA_F8_FINITE, "f4", 2, ["sum", "nansum", "mean", "nanmax", "min", "nanargmin", "nanfirst", "count", "var"], pat)
    if ctx.tier == "thorough":
        rest += [c for c in make_cases(gen.ALPHA_F8, "f8", 4, FUNCS, lambda n: gen.code_patterns(n)[:4] + gen.code_patterns(n)[-1:]) if len(c["vals"]) == 4]
    return core, rest


def run(ctx):
    shared.model_engines(ctx)
    core, rest = space(ctx)
    budget = 60_000 if ctx.tier == "quick" else 900_000
    cases = core + gen.pick(ctx.rng, rest, max(0, budget - len(core)))
    ctx.cov["exhaustive"] = len(cases) == len(core) + len(rest)
    ctx.cov["space"] = {"core": len(core), "rest": len(rest), "visited": len(cases)}
    shared.run_reduce_and_validate(ctx, cases, tag="c01")
    ctx.cov["rule"] = (
        "cases = (value sequence over the dtype's alphabet incl. NaN/+-inf/negatives/zero, label pattern incl. unsorted and "
        "missing labels, reduction, ddof, engine); exhaustive for length<=2 (f8,i8,bool), seeded subset of the finite length-3/4 "
        "space; non-trivial = distinct (func, engine, vals, codes) in which some group has >=2 members or a NaN/inf member")
    ctx.assumptions += [
        "values are exactly representable; floating-point rounding is outside the model",
        "scope restrictions of C01 (arg-reductions on NaN-free groups, nanarg* on not-all-NaN groups, any/all on bool) encoded in Ref!Specified",
        "Ref.tla transcribes NumPy; harness/selftest.py cross-checks it against real NumPy",
    ]


def replay(ctx, payload):
    return shared.replay_reduce(ctx, payload)
