"""C16 — group order follows the sort contract; the label->value mapping never
changes.

M  MC_Factorize!GroupsAreContract / CodesPointAtSlots (sorted vs given vs first
   appearance) and MC_Pipeline!InvLabels (no label repeated at any tree level).
T  Returns for labels (int / str / float with NaN) x sort x expected_groups
   (sorted / unsorted / absent) x every strategy and chunking, validated by
   TraceReduce.tla: clauses `groups` (the contract; any permutation when the
   property leaves the order open: chunked input, sort=False, nothing requested),
   `order` (strictly ascending when sort=True, never a repeated label) and
   `values` (each returned label is paired with the reference value of THAT label).
"""
from __future__ import annotations

from .. import gen, redcase
from . import models, shared
from .c02 import confined

FUNCS = ["sum", "nanmean", "max", "nanmin", "count", "nanfirst", "nanlast", "argmax", "var", "first", "prod"]
REQS = [None, [0, 1, 2], [2, 0, 1], [1, 0], [2, 1, 0, 3]]


def build(vals, codes, req, sort, func, mode, label_kind, engine, req_form="array"):
    n = len(vals)
    has_missing = min(codes) < 0
    kind = "float" if has_missing else label_kind
    present = {c for c in codes if c >= 0}
    fill = None
    if req is not None and not set(req) <= present:
        fill = [-1, 1] if func in redcase.ARG_FUNCS else [0, 0]
    if engine == "flox" and func in redcase.ARG_FUNCS:
        return None
    c = {"func": func, "vals": vals, "dtype": "f8", "codes": codes, "label_kind": kind, "req": req, "sort": sort, "fill": fill,
         "engine": engine, "ddof": 1 if func in redcase.VAR_FUNCS else None, "req_form": req_form}
    if req is None and req_form != "array":
        return None
    if mode != "eager":
        method, chunks_i, by_dask = mode
        comps = gen.compositions(n)
        chunks = comps[chunks_i % len(comps)]
        if func == "first" and method != "blockwise":
            return None
        if method == "blockwise" and (not confined(codes, chunks) or by_dask):
            return None
        if by_dask and (method == "cohorts" or req is None and method is not None and False):
            return None
        if by_dask and kind == "str":
            return None
        c.update(method=method, chunks=chunks, by_dask=by_dask)
    return c


def run(ctx):
    models.factorize(ctx)
    vals5 = [[gen.iv(-2), gen.iv(1), gen.NAN, gen.iv(3), gen.iv(1)], [gen.iv(4), gen.iv(-4), gen.iv(0), gen.iv(7), gen.iv(2)]]
    vals6 = [[gen.iv(-2), gen.iv(1), gen.NAN, gen.iv(3), gen.iv(1), gen.iv(5)], [gen.iv(4), gen.iv(-4), gen.iv(0), gen.iv(7), gen.iv(2), gen.iv(-1)]]
    codes5 = [[2, 0, 1, 0, 2], [1, 1, 0, 2, 2], [2, 2, 1, 1, 0], [0, 1, 2, 0, 1], [1, -1, 0, 2, 1], [2, 0, -1, -1, 0], [0, 0, 0, 0, 0], [2, 2, 0, 0, 2]]
    codes6 = [[2, 0, 1, 0, 2, 1], [1, 1, 0, 0, 2, 2], [2, 2, 1, 1, 0, 0], [0, 1, 2, 0, 1, 2], [1, -1, 0, 2, 1, -1], [2, 1, 0, 2, 1, 0]]
    modes = ["eager"] + [(m, i, d) for m in (None, "map-reduce", "cohorts", "blockwise") for i in range(0, 16, 3) for d in (False, True)]
    sp5 = gen.Space("n5", {"vals": vals5, "codes": codes5, "req": REQS, "sort": [True, False], "func": FUNCS, "mode": modes,
                           "label_kind": ["int", "str", "float"], "engine": [None, "numpy", "flox"], "req_form": ["array", "index", "list"]}, build)
    sp6 = gen.Space("n6", {"vals": vals6, "codes": codes6, "req": REQS, "sort": [True, False], "func": FUNCS, "mode": modes,
                           "label_kind": ["int", "str", "float"], "engine": [None, "numpy"], "req_form": ["array", "index", "list"]}, build)
    budget = 20000 if ctx.tier == "quick" else 300000
    cases = sp5.sample(ctx.rng, budget // 2) + sp6.sample(ctx.rng, budget // 2)
    ctx.cov["space"] = {"n5": sp5.size, "n6": sp6.size}
    shared.run_reduce_and_validate(ctx, cases, tag="c16")
    from . import compose

    # Flox.tla behaviours without requested labels: the labels come back in the order Factorize.tla says
    compose.replay(ctx, {"compose:labels"}, n=800 if ctx.tier == "quick" else 20000, only=lambda b: not b["cfg"]["hasExpected"])
    ctx.cov["rule"] = ("(labels int|str|float+NaN in unsorted/interleaved patterns, sort in {T,F}, expected_groups absent/sorted/unsorted/superset, 11 reductions, "
                       "eager | 4 strategies x chunkings x numpy|dask labels); non-trivial = group with >=2 members or a special value")
    ctx.assumptions += ["for chunked inputs with sort=False and no expected_groups the property leaves the order open: any permutation without loss or repetition is accepted"]


def replay(ctx, payload):
    return shared.replay_reduce(ctx, payload)
