"""C13 — generated tasks are pure, re-executable and serialisable.

M  Exec.tla on real graphs: Confluence under RunTask/Lose/re-execution (all
   interleavings for small graphs) and the negative control: with ONE impure task
   (writes into its first input) TLC must find a schedule breaking Confluence.
R  every task of real graphs (every reduction x strategy x engine, and the scans)
   is executed by the harness scheduler with all stored values frozen read-only,
   input digests before/after, a second execution, and an execution after a
   cloudpickle round trip of the task object.
T  the recorded event stream is validated by TraceExec.tla (ready / inputs / pure /
   repeat clauses; a corrupted stream must be rejected).
"""
from __future__ import annotations

import copy

from .. import gen, redcase, schedcase, tlc
from ..common import MachineryFailure, harness_errors, pmap
from . import shared

FUNCS = ["sum", "nansum", "prod", "nanprod", "mean", "nanmean", "var", "nanvar", "std", "nanstd", "max", "nanmax", "min", "nanmin",
         "argmax", "nanargmax", "argmin", "nanargmin", "nanfirst", "nanlast", "count", "first", "last", "median", "nanquantile"]
SCANS = ["nancumsum", "ffill", "bfill"]
VALS = [gen.iv(1), gen.iv(-2), gen.NAN, gen.iv(4), gen.iv(0), gen.iv(3), gen.NAN, gen.iv(-1)]


def build(func, method, engine, by_dask, reindex, layout):
    codes, chunks = {"mixed": ([0, 1, 0, 1, 2, 2, 0, 1], [3, 2, 3]), "confined": ([0, 0, 0, 1, 1, 2, 2, 2], [3, 2, 3]),
                     "fine": ([0, 1, 0, 1, 0, 1, 0, 1], [1] * 8)}[layout]
    blockwise_only = func in ("first", "last", "median", "nanquantile")
    if blockwise_only and (method != "blockwise" or layout != "confined"):
        return None
    if method == "blockwise" and layout != "confined":
        return None
    if engine == "flox" and func in redcase.ARG_FUNCS:
        return None
    if by_dask and method in ("cohorts", "blockwise"):
        return None
    c = {"func": func, "vals": VALS, "dtype": "f8", "codes": codes, "label_kind": "int", "chunks": chunks, "method": method,
         "engine": engine, "by_dask": by_dask, "reindex": reindex, "split_every": 2,
         "ddof": 1 if func in redcase.VAR_FUNCS | redcase.STD_FUNCS else None, "q": [1, 4] if func == "nanquantile" else None}
    if by_dask:
        c["req"] = [0, 1, 2]
        c["fill"] = [-1, 1] if func in redcase.ARG_FUNCS else [0, 0]
    return c


def run(ctx):
    # design level: real graphs, all interleavings + impure negative control
    base = build("nanmean", "map-reduce", None, False, None, "mixed")
    from ..graphcase import build as gbuild
    from .. import sched

    result, groups, kind = gbuild(base)
    graph = sched.graph_of(result)
    import dask

    outputs = list(dask.core.flatten(result.__dask_keys__()))
    val_name = None
    for k, node in graph.items():
        if sched.describe(node)["kind"] == "chunk":
            val_name = sched.ordered_deps(node)[0][0]
            break
    gjson, order_keys = sched.export_graph(graph, val_name, outputs, [[0, 1], [0, 1, 2], [0, 1, 2]], [[0, 1, 2]])
    r = schedcase.run_tlc_exec(gjson, "check", 0, 0, maxlose=2 if ctx.tier == "thorough" else 1, timeout=900)
    if r.get("error") or r["timed_out"]:
        raise MachineryFailure(f"Exec.tla on the real nanmean graph: {r.get('error', 'timeout')}")
    if r["violated"]:
        ctx.violation(base, f"graph:{r['violated']}", "Exec.tla on the exported real graph")
    ctx.cov["states"] += r["states"]
    ctx.cov["transitions"] += r["generated"]
    ctx.cov["models"].append({"model": "Exec[real nanmean map-reduce graph, MaxLose]", "states_distinct": r["states"], "states_generated": r["generated"]})
    impure_id = next(i + 1 for i, k in enumerate(order_keys) if sched.describe(graph[k])["kind"] == "combine")
    r2 = schedcase.run_tlc_exec(gjson, "check", 0, 0, maxlose=0, impure=impure_id, timeout=600)
    ctx.cov["states"] += r2["states"]
    ctx.cov["transitions"] += r2["generated"]
    ctx.cov["models"].append({"model": "Exec[negative control: one impure combine task]", "states_distinct": r2["states"], "violated": r2["violated"]})
    if r2["violated"] != "Confluence":
        raise MachineryFailure("Exec.tla negative control: an impure task did not break Confluence")

    sp = gen.Space("graphs", {"func": FUNCS, "method": [None, "map-reduce", "cohorts", "blockwise"], "engine": [None, "numpy", "flox", "numbagg", "numba"],
                              "by_dask": [False, True], "reindex": [None, False], "layout": ["mixed", "confined", "fine"]}, build)
    cases = sp.all() if ctx.tier == "thorough" else sp.sample(ctx.rng, 260)
    for f in SCANS:
        for chunks in ([3, 2, 3], [1] * 8, [8], [4, 4]):
            for dt, vals in (("f8", VALS), ("i8", [gen.iv(x) for x in (1, -2, 0, 4, 0, 3, 7, -1)])):
                cases.append({"scan": True, "func": f, "vals": vals, "dtype": dt, "codes": [0, 1, 0, 1, 2, 2, 0, 1], "chunks": chunks})
    for i, c in enumerate(cases):
        c["order_seed"] = (ctx.seed * 13 + i) % 9973
    ctx.cov["space"] = {"reduction_graph_space": sp.size, "visited": len(cases)}
    recs = pmap("harness.puritycase", "run_purity_case", cases)
    errs = harness_errors(recs)
    if errs:
        raise MachineryFailure(f"{len(errs)} harness errors, first: {errs[0]['_harness_error']}\n{errs[0].get('_tb','')}")
    lines, owner = [], {}
    ngraphs = 0
    for gi, rec in enumerate(recs):
        case = rec["case"]
        ctx.cov["evaluations"] += 1
        if "exc" in rec:
            if rec["exc"] in redcase.CLEAN_REFUSALS:
                ctx.cov["refused_cleanly"] = ctx.cov.get("refused_cleanly", 0) + 1
                continue
            ctx.violation({**case, "exc": rec["exc"], "msg": rec["msg"]}, f"exception:{rec['exc']}", rec["msg"])
            continue
        if rec.get("notlazy"):
            continue
        ngraphs += 1
        for p in rec["problems"]:
            # a task that raises when executed frozen / twice / after pickling
            ctx.violation({**case, "task": p["k"], "task_kind": p["kind"]}, f"task-{p['ev']}-raises:{p['exc']}", p["msg"])
        lines.append({"id": len(lines), "ev": "graph", "gid": gi})
        for e in rec["events"]:
            e = dict(e, id=len(lines))
            owner[e["id"]] = (case, e)
            lines.append(e)
        ctx.nontrivial((case["func"], case.get("method"), case.get("engine"), case.get("by_dask"), str(case.get("chunks"))))
    if not lines:
        raise MachineryFailure("no graph executed")
    # control: one task that changed an input and one re-execution with another digest must be rejected
    ctrl = [copy.deepcopy(e) for e in lines if e["ev"] == "rerun" and e["deps"]][:1]
    if not ctrl:
        raise MachineryFailure("no rerun event for the control")
    c1 = dict(ctrl[0], id=-7, ina=["x"] + ctrl[0]["ina"][1:], dig="y")
    lines.append(c1)
    fails, stats = tlc.validate_trace("TraceExec", lines, tag="c13", shards=1, timeout=1800)
    seen = False
    for f in fails:
        if f[1] == -7:
            seen = {"pure", "repeat"} <= set(f[2])
            continue
        case, e = owner[f[1]]
        ctx.violation({**case, "task_kind": e.get("kind"), "event": e["ev"]}, "task:" + "+".join(sorted(f[2])), {"event": e})
    if not seen:
        raise MachineryFailure("TraceExec control (mutated input + different re-execution) was accepted")
    ctx.add_traces(len(lines) - 1, stats, name="TraceExec")
    ctx.cov["graphs_executed"] = ngraphs
    ctx.cov["replayed_behaviours"] += ngraphs
    ctx.sample({"graph": {k: v for k, v in recs[0]["case"].items() if k != "vals"}, "events": recs[0].get("events", [])[-3:]})
    ctx.cov["rule"] = ("graphs = (25 reductions x method x engine x numpy|dask labels x reindex x 3 layouts) + (3 scans x 4 chunkings x 2 dtypes); every task: "
                       "frozen inputs, input digests before/after, second execution, cloudpickle round trip; non-trivial = distinct graph configuration")
    ctx.assumptions += ["sub-task races are reduced to purity (Exec.tla shows pure tasks commute under every interleaving)",
                        "content digests (sha1 over dtype/shape/bytes) identify values"]


def replay(ctx, payload):
    from .. import puritycase

    case = {k: v for k, v in payload["case"].items() if k not in ("exc", "msg", "task", "task_kind", "event")}
    rec = puritycase.run_purity_case(case)
    print(rec.get("problems"), rec.get("exc"))
    return 1 if rec.get("problems") or rec.get("exc") else 0
