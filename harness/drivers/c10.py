"""C10 — grouped scans = per-group sequential scans for every chunking.

M  MC_Scan (Scan.tla): the state operator of scan_binary_op is associative on block
   states (both modes), the left-folded prefix + final step equals RefScan position
   by position for every input and every chunking, bfill = mirrored ffill.
R  real dask_groupby_scan graphs executed task by task (random topological order):
   every grouped_reduce / chunk_scan / scan_binary_op output (ScanState) validated
   against Scan.tla by TraceScan.tla.
S  FloxScan.tla: the whole groupby_scan call as a state machine (validation order, pass-through, single-member
   shortcut, eager scan, the cumreduction task graph in ANY order and bracketing, finalize), model-checked
   and replayed into the real entry point (harness/scancompose.py).
T  Returns of eager and chunked groupby_scan (float / int / bool data, all chunkings,
   numpy and dask labels, missing labels for ffill/bfill) against RefScan.
"""
from __future__ import annotations

from .. import gen, redcase, scancase, tlc
from ..common import MachineryFailure, harness_errors, pmap
from . import shared

FUNCS = ["nancumsum", "ffill", "bfill"]
ALPHA = [gen.iv(-1), gen.iv(0), gen.iv(2), gen.NAN]


def build(vals, codes, func, chunks_i, by_dask, dtype="f8"):
    n = len(vals)
    if func == "nancumsum" and min(codes) < 0:
        return None     # nancumsum does not accept missing labels (property scope)
    if dtype != "f8" and any(v == gen.NAN for v in vals):
        return None
    c = {"func": func, "vals": vals, "dtype": dtype, "codes": codes, "label_kind": "float" if min(codes) < 0 else "int"}
    if chunks_i is not None:
        comps = gen.compositions(n)
        c["chunks"] = comps[chunks_i % len(comps)]
        c["by_dask"] = by_dask
    elif by_dask:
        return None
    return c


def run(ctx):
    n = 4 if ctx.tier == "quick" else 5
    for f in FUNCS:
        cfg = f'SPECIFICATION Spec\nCHECK_DEADLOCK FALSE\nCONSTANTS MaxLen = {n}\nFunc = "{f}"\nINVARIANT Assoc\nINVARIANT Prefix\n'
        res = shared.run_model(ctx, "MC_Scan", cfg, name=f"MC_Scan[{f}]", constants=f"MaxLen={n}", timeout=3000)
        if res.violated:
            raise MachineryFailure(f"MC_Scan[{f}]: {res.violated} violated: {res.error_trace[-1:]}")
    pats = {3: [[0, 1, 0], [1, 0, 0], [0, 0, 0], [0, -1, 0], [0, 1, 2], [2, 0, 1]], 4: gen.code_patterns(4) + [[2, 1, 0, 2]], 5: gen.code_patterns(5) + [[0, 1, 2, 0, 1]],
            6: gen.code_patterns(6) + [[0, 1, 2, 2, 1, 0]], 7: [[0, 1, 0, 2, 1, 0, 2], [1, 1, 0, -1, 0, 1, 0], [2, 0, 1, 0, 2, 1, 2]]}
    spaces = []
    for nn in (3, 4, 5, 6, 7):
        alpha = ALPHA if nn <= 5 else [gen.iv(2), gen.NAN, gen.iv(-1)]
        spaces.append(gen.Space(f"f8-{nn}", {"vals": gen.seqs(alpha, nn), "codes": pats[nn], "func": FUNCS,
                                              "chunks_i": [None, None] + list(range(2 ** (nn - 1))), "by_dask": [False, True]}, build))
    spaces.append(gen.Space("i8-5", {"vals": gen.seqs([gen.iv(-1), gen.iv(0), gen.iv(3)], 5), "codes": pats[5], "func": FUNCS, "chunks_i": [None] + list(range(16)),
                                     "by_dask": [False]}, lambda **kw: build(dtype="i8", **kw)))
    spaces.append(gen.Space("i1-5", {"vals": gen.seqs([gen.iv(100), gen.iv(-100), gen.iv(27)], 5), "codes": pats[5][:4], "func": ["nancumsum", "ffill"],
                                     "chunks_i": [None] + list(range(16)), "by_dask": [False]}, lambda **kw: build(dtype="i1", **kw)))
    spaces.append(gen.Space("u1-4", {"vals": gen.seqs([gen.iv(200), gen.iv(3), gen.iv(255)], 4), "codes": pats[4][:4], "func": ["nancumsum"],
                                     "chunks_i": [None] + list(range(8)), "by_dask": [False]}, lambda **kw: build(dtype="u1", **kw)))
    spaces.append(gen.Space("b1-4", {"vals": gen.seqs(gen.ALPHA_BOOL, 4), "codes": pats[4], "func": FUNCS, "chunks_i": [None] + list(range(8)),
                                     "by_dask": [False]}, lambda **kw: build(dtype="b1", **kw)))
    budget = 12000 if ctx.tier == "quick" else 250000
    cases = []
    for sp in spaces:
        cases += sp.sample(ctx.rng, budget // len(spaces))
    ctx.cov["space"] = {sp.name: sp.size for sp in spaces}
    recs = pmap("harness.scancase", "run_scan_case", cases)
    errs = harness_errors(recs)
    if errs:
        raise MachineryFailure(f"{len(errs)} harness errors, first: {errs[0]['_harness_error']}\n{errs[0].get('_tb','')}")
    lines, owner = [], {}
    for rec in recs:
        ctx.cov["evaluations"] += 1
        if "exc" in rec:
            if rec["exc"] == "ProjectionError":
                raise MachineryFailure(f"projection: {rec['msg']}")
            if rec["exc"] in redcase.CLEAN_REFUSALS:
                ctx.cov["refused_cleanly"] = ctx.cov.get("refused_cleanly", 0) + 1
                continue
            ctx.violation(rec, f"exception:{rec['exc']}", rec["msg"])
            continue
        line = {"id": len(lines), "kind": "return", "func": rec["func"], "vals": rec["vals"], "codes": rec["codes"], "out": rec["out"]}
        owner[line["id"]] = rec
        lines.append(line)
        if shared.case_nontrivial(rec):
            ctx.nontrivial(shared.case_key(rec))
    # task level
    gcases = [dict(c, order_seed=i) for i, c in enumerate(gen.pick(ctx.rng, [c for c in cases if c.get("chunks")], 500 if ctx.tier == "quick" else 8000))]
    grecs = pmap("harness.scancase", "run_scan_graph_case", gcases)
    errs = harness_errors(grecs)
    if errs:
        raise MachineryFailure(f"{len(errs)} harness errors, first: {errs[0]['_harness_error']}\n{errs[0].get('_tb','')}")
    ngraphs = 0
    for rec in grecs:
        if "exc" in rec:
            if rec["exc"] in redcase.CLEAN_REFUSALS and rec.get("phase") == "call":
                continue
            ctx.violation({**rec["case"], "exc": rec["exc"], "msg": rec["msg"]}, f"exception:{rec['exc']}", rec["msg"])
            continue
        if rec.get("notlazy"):
            continue
        ngraphs += 1
        for t in rec["tasks"]:
            if t["kind"] == "projection-error":
                raise MachineryFailure(f"scan task projection: {t['msg']}")
            t = dict(t, id=len(lines))
            owner[t["id"]] = {**rec["case"], "task": {k: v for k, v in t.items() if k != "id"}}
            lines.append(t)
    if not lines:
        raise MachineryFailure("no scan produced a result")
    ret = next(x for x in lines if x["kind"] == "return" and any(v[1] > 0 for v in x["out"]))
    ctrl = dict(ret, id=-7, out=[[v[0] + 3 * max(v[1], 1), max(v[1], 1)] if v[1] > 0 else v for v in ret["out"]])
    fails, stats = tlc.validate_trace("TraceScan", lines + [ctrl], tag="c10", shards=8)
    seen = False
    for f in fails:
        if f[1] == -7:
            seen = True
            continue
        ctx.violation(owner[f[1]], "+".join(sorted(f[2])), None)
    if not seen:
        raise MachineryFailure("binding control: corrupted scan record accepted")
    ctx.add_traces(len(lines), stats, name="TraceScan")
    ctx.cov["scan_graphs_replayed"] = ngraphs
    # the composed scan specification (FloxScan.tla): exhaustive at small bounds (every chunking, task order and bracketing of the
    # block states), then its behaviours (incl. +-inf data, refusal cells, shortcuts) replayed into the real groupby_scan
    from . import composescan

    composescan.model(ctx)
    composescan.replay(ctx, {"scan:result", "scan:shape", "scan:refusal", "scan:input"})
    ctx.cov["replayed_behaviours"] += ngraphs
    ctx.sample(lines[0])
    ctx.sample(next((x for x in lines if x["kind"] == "binop"), lines[-1]))
    ctx.cov["rule"] = ("(values over {-1,0,2,NaN} | ints | bools, interleaved labels incl. groups absent from some chunks and missing labels for ffill/bfill, "
                       "nancumsum|ffill|bfill, eager | ALL chunkings x numpy|dask labels); non-trivial = group with >=2 members or NaN")
    ctx.assumptions += ["positions whose label is missing are unspecified (the property only speaks of the positions of each group)",
                        "datetime data are not yet covered by the scan drivers"]


def replay(ctx, payload):
    case = {k: v for k, v in payload["case"].items() if k in ("func", "vals", "dtype", "codes", "label_kind", "chunks", "by_dask")}
    print(scancase.run_scan_case(case))
    return 0
