"""TLC model-checking runs (design level) shared by several drivers."""
from __future__ import annotations

from ..common import MachineryFailure
from . import shared


def engines(ctx):
    n = 4 if ctx.tier == "quick" else 5
    cfg = f"SPECIFICATION Spec\nCHECK_DEADLOCK FALSE\nCONSTANTS MaxLen = {n}\nSentinel = FALSE\nINVARIANT InvFlox\nINVARIANT InvNpg\nINVARIANT InvVar\n"
    res = shared.run_model(ctx, "MC_Engines", cfg, name="MC_Engines", constants=f"MaxLen={n}, alphabet of 8 values incl NaN,+-inf", coverage=True, must_cover=("Grow",))
    if res.violated:
        raise MachineryFailure(f"MC_Engines: {res.violated} violated — the engine model disagrees with Ref:\n{res.error_trace[-1:]}")
    # negative control: the sentinel-comparison variant (defect D4) must be seen by the model
    cfg2 = "SPECIFICATION Spec\nCHECK_DEADLOCK FALSE\nCONSTANTS MaxLen = 2\nSentinel = TRUE\nINVARIANT InvFlox\n"
    res2 = shared.run_model(ctx, "MC_Engines", cfg2, name="MC_Engines(negative control: sentinel comparison)", constants="MaxLen=2")
    if res2.violated != "InvFlox":
        raise MachineryFailure("MC_Engines negative control: the sentinel-comparison variant was not rejected")
