"""TLC model-checking runs (design level) shared by several drivers."""
from __future__ import annotations

from ..common import MachineryFailure
from . import shared


def engines(ctx):
    n = 4 if ctx.tier == "quick" else 5
    cfg = f"SPECIFICATION Spec\nCHECK_DEADLOCK FALSE\nCONSTANTS MaxLen = {n}\nSentinel = FALSE\nINVARIANT InvFlox\nINVARIANT InvNpg\nINVARIANT InvVar\n"
    res = shared.run_model(ctx, "MC_Engines", cfg, name="MC_Engines", constants=f"MaxLen={n}, alphabet of 8 values incl NaN,+-inf", coverage=True, must_cover=("Grow",))
    if res.violated:
        raise MachineryFailure(f"MC_Engines: {res.violated} violated — the engine model disagrees with Ref:\n{res.error_trace[-1:]}")
    # negative control: the sentinel-comparison variant (defect D4) must be seen by the model
    cfg2 = "SPECIFICATION Spec\nCHECK_DEADLOCK FALSE\nCONSTANTS MaxLen = 2\nSentinel = TRUE\nINVARIANT InvFlox\n"
    res2 = shared.run_model(ctx, "MC_Engines", cfg2, name="MC_Engines(negative control: sentinel comparison)", constants="MaxLen=2")
    if res2.violated != "InvFlox":
        raise MachineryFailure("MC_Engines negative control: the sentinel-comparison variant was not rejected")


PIPE_CFG = """SPECIFICATION Spec
CHECK_DEADLOCK FALSE
CONSTANTS MaxLen = {maxlen}
NLabels = {nlabels}
SplitEverys = {{{ses}}}
DtypeClass = "{dt}"
WithMissing = {miss}
Positional = {pos}
INVARIANT InvResult
INVARIANT InvLabels
"""


def _write_table(mutate=None):
    from .. import extract

    rows = extract.write_agg_table()
    if not rows:
        raise MachineryFailure("the live registry yielded no blueprint")
    return rows


def pipeline(ctx, *, configs=None, confirm=True):
    """MC_Pipeline on the blueprint table extracted from the live registry.
    A counterexample is confirmed on the real code before it counts."""
    from .. import extract
    from . import confirm as cf

    rows = _write_table()
    ctx.cov["live_blueprints"] = len(rows)
    if configs is None:
        if ctx.tier == "quick":
            configs = [dict(maxlen=2, nlabels=2, ses="2", dt="f8", miss="TRUE"),
                       dict(maxlen=3, nlabels=1, ses="2", dt="i8", miss="TRUE")]
        else:
            configs = [dict(maxlen=3, nlabels=2, ses="2", dt="f8", miss="TRUE"),
                       dict(maxlen=4, nlabels=1, ses="2, 3", dt="i8", miss="TRUE"),
                       dict(maxlen=4, nlabels=2, ses="2", dt="b1", miss="FALSE")]
    for c in configs:
        c.setdefault("pos", "FALSE")
        cfg = PIPE_CFG.format(**c)
        res = shared.run_model(ctx, "MC_Pipeline", cfg, name=f"MC_Pipeline[{c['dt']},len<={c['maxlen']},positional={c['pos']}]",
                               constants=str(c), timeout=3000 if ctx.tier == "thorough" else 600)
        if res.violated:
            st = res.error_trace[-1] if res.error_trace else {}
            cf.confirm_pipeline_counterexample(ctx, res, rows)
    # negative control: a table whose `max` intermediate fill is 0 (not neutral for negative data) must be rejected
    bad = []
    for r in rows:
        r = dict(r)
        if r["name"] == "max" and r["dtype"] == "f8":
            r["fillI"] = [[0, 1]] + r["fillI"][1:]
        bad.append(r)
    body = ",\n  ".join(extract.tla(r) for r in bad)
    from .. import tlc

    wd = tlc.new_workdir("pipe-neg")
    try:
        (wd / "AggTable.tla").write_text("---- MODULE AggTable ----\nEXTENDS Integers\nAggTable == <<\n  " + body + "\n>>\n====\n")
        cfg = PIPE_CFG.format(maxlen=2, nlabels=2, ses="2", dt="f8", miss="FALSE", pos="FALSE")
        res = tlc.run_tlc("MC_Pipeline", cfg, wd, workers=8, timeout=600)
        tlc.require_ok(res, "MC_Pipeline negative control")
        ctx.add_model("MC_Pipeline(negative control: max fill 0)", res, "mutated table")
        if res.violated != "InvResult":
            raise MachineryFailure("MC_Pipeline negative control: a non-neutral intermediate fill was not rejected")
    finally:
        tlc.cleanup(wd)


LAWS_CFG = """SPECIFICATION Spec
CHECK_DEADLOCK FALSE
CONSTANTS MaxLen = {maxlen}
DtypeClass = "{dt}"
INVARIANT Exact
INVARIANT Bracket
INVARIANT Neutral
ALIAS Dbg
"""


def _confirm_laws_counterexample(ctx, res, st):
    """a law fails on the LIVE blueprint table: replay the counterexample as a 3-block array on real flox"""
    from .. import redcase, tlc
    from ..graphcase import run_graph_case
    from . import c04

    s, bad = st.get("s"), st.get("bad") or []
    tried = 0
    for entry in bad[:12]:
        name, mc, mode, split = entry[0], entry[1], entry[2], entry[3]
        case = c04.build(s, tuple(split), name, (True if mode.get("rb") else False) if mode.get("simple") else None, "map-reduce", 2, mc or None)
        if case is None:
            continue
        tried += 1
        rec = run_graph_case(case)
        if "out" not in rec:
            continue
        r = dict(case, groups=rec["groups"], out=rec["out"])
        fails, _ = tlc.validate_trace("TraceReduce", [redcase.tlc_record(r, 0, check_groups=False)], tag="confirm-laws", shards=1)
        if fails:
            ctx.violation(r, f"design-counterexample-confirmed:MC_Laws!{res.violated}", {"blueprint": name, "split": split, "s": s, "expected": fails[0][3], "got": rec["out"]})
            return
    raise MachineryFailure(
        f"MC_Laws: law {res.violated} fails on the live blueprint table for s={s} bad={str(bad)[:400]}, but {tried} replays on real flox "
        "gave the reference answer: Aggs.tla misrepresents the code (or the counterexample needs another strategy)")


def laws(ctx, which=("Exact", "Bracket", "Neutral")):
    """MC_Laws on the live registry + the driver's user-defined aggregations"""
    from .. import extract, tlc

    rows = _write_table()
    ctx.cov["live_blueprints"] = len(rows)
    if ctx.tier == "quick":
        configs = [dict(maxlen=2, dt="f8"), dict(maxlen=2, dt="i8")]
    else:
        configs = [dict(maxlen=3, dt="f8"), dict(maxlen=3, dt="i8"), dict(maxlen=4, dt="b1")]
    for c in configs:
        cfg = LAWS_CFG.format(**c)
        cfg = "\n".join(l for l in cfg.splitlines() if not l.startswith("INVARIANT") or l.split()[1] in which) + "\n"
        res = shared.run_model(ctx, "MC_Laws", cfg, name=f"MC_Laws[{c['dt']},len<={c['maxlen']}]", constants=str(c),
                               timeout=3000 if ctx.tier == "thorough" else 900)
        if res.violated:
            st = res.error_trace[-1] if res.error_trace else {}
            _confirm_laws_counterexample(ctx, res, st)
    # negative control: nanmean whose counter is combined with max instead of sum must break Exact
    bad = []
    for r in rows:
        r = dict(r)
        if r["name"] == "nanmean":
            r["combine"] = [r["combine"][0], "max"] + r["combine"][2:]
        bad.append(r)
    wd = tlc.new_workdir("laws-neg")
    try:
        body = ",\n  ".join(extract.tla(r) for r in bad)
        (wd / "AggTable.tla").write_text("---- MODULE AggTable ----\nEXTENDS Integers\nAggTable == <<\n  " + body + "\n>>\n====\n")
        res = tlc.run_tlc("MC_Laws", LAWS_CFG.format(maxlen=2, dt="f8"), wd, workers=8, timeout=900)
        tlc.require_ok(res, "MC_Laws negative control")
        ctx.add_model("MC_Laws(negative control: nanmean counter combined with max)", res, "mutated table")
        if res.violated != "Exact":
            raise MachineryFailure("MC_Laws negative control: an unlawful blueprint was not rejected")
    finally:
        tlc.cleanup(wd)


def factorize(ctx):
    n, nt = (3, 4) if ctx.tier == "quick" else (5, 4)
    cfg = (f"SPECIFICATION Spec\nCHECK_DEADLOCK FALSE\nCONSTANTS MaxLen = {n}\nNTok = {nt}\nINVARIANT GroupsAreContract\n"
           "INVARIANT CodesPointAtSlots\nINVARIANT BinsLikeCut\nINVARIANT RavelOk\nINVARIANT OffsetsOk\n")
    res = shared.run_model(ctx, "MC_Factorize", cfg, name="MC_Factorize", constants=f"MaxLen={n}, NTok={nt}", coverage=True, must_cover=("Grow",))
    if res.violated:
        raise MachineryFailure(f"MC_Factorize: {res.violated} violated: {res.error_trace[-1:]}")


def quantile(ctx):
    n = 4 if ctx.tier == "quick" else 5
    cfg = f"SPECIFICATION Spec\nCHECK_DEADLOCK FALSE\nCONSTANTS MaxLen = {n}\nMaskAllNaN = TRUE\nINVARIANT QuantileFloxIsRef\n"
    res = shared.run_model(ctx, "MC_Quantile", cfg, name="MC_Quantile", constants=f"MaxLen={n}", coverage=True, must_cover=("Grow",))
    if res.violated:
        raise MachineryFailure(f"MC_Quantile: {res.violated} violated: {res.error_trace[-1:]}")


COHPIPE_CFG = """SPECIFICATION Spec
CHECK_DEADLOCK FALSE
CONSTANTS MaxLen = {maxlen}
NLabels = {nlabels}
SplitEvery = {se}
Names = {{"nansum", "nanmax", "nanmean", "argmax", "nanfirst", "count", "nanvar"}}
INVARIANT {inv}
"""


def cohort_pipeline(ctx):
    """planner (Cohorts.tla) composed with the algebra (Aggs.tla) on the live table"""
    _write_table()
    cfgs = [dict(maxlen=3, nlabels=2, se=2)] if ctx.tier == "quick" else [dict(maxlen=5, nlabels=2, se=2), dict(maxlen=4, nlabels=3, se=3)]
    for c in cfgs:
        res = shared.run_model(ctx, "MC_CohortPipeline", COHPIPE_CFG.format(inv="CohortsStrategyIsRef", **c), name=f"MC_CohortPipeline[{c}]",
                               constants=str(c), timeout=3000)
        if res.violated:
            raise MachineryFailure(f"MC_CohortPipeline: the composed cohorts strategy differs from Ref in the model: {res.error_trace[-1:]}")
    w = shared.run_model(ctx, "MC_CohortPipeline", COHPIPE_CFG.format(inv="NeverExercised", **cfgs[0]), name="MC_CohortPipeline(vacuity witness)", constants=str(cfgs[0]))
    if w.violated != "NeverExercised":
        raise MachineryFailure("MC_CohortPipeline: the cohorts strategy is never exercised by the model (vacuous)")
