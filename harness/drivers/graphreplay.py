"""Task-level binding shared by C02/C03/C04/C06/C09: real graphs executed by the
harness scheduler, every flox task validated by spec/TraceGraph.tla."""
from __future__ import annotations

import copy

from .. import gen, tlc
from ..common import MachineryFailure, harness_errors, pmap


def validate_graph_records(ctx, recs, *, tag):
    lines, owner = [], {}
    nfinal = 0
    for gi, rec in enumerate(recs):
        ctx.cov["evaluations"] += 1
        if "exc" in rec:
            if rec["exc"] == "ProjectionError":
                raise MachineryFailure(f"projection failed: {rec['msg']} on {rec['case']}")
            if rec["exc"] in ("ValueError", "NotImplementedError", "ImportError"):
                ctx.cov["refused_cleanly"] = ctx.cov.get("refused_cleanly", 0) + 1
                continue
            ctx.violation({**rec["case"], "exc": rec["exc"], "msg": rec.get("msg"), "phase": rec.get("phase")}, f"exception:{rec['exc']}", rec.get("msg"))
            continue
        if rec.get("notlazy"):
            continue
        for t in rec.get("tasks", []):
            if t["kind"] == "projection-error":
                raise MachineryFailure(f"task projection failed: {t['msg']} on {rec['case']}")
            t = dict(t)
            t["id"] = len(lines)
            owner[t["id"]] = (gi, t)
            lines.append(t)
        nfinal += 1
    if not lines:
        raise MachineryFailure("no task record was produced")
    ctrl = copy.deepcopy(next(t for t in lines if t["kind"] in ("chunk", "combine") and t["out"]["inter"] and t["out"]["inter"][0]))
    ctrl["id"] = -7
    v = ctrl["out"]["inter"][0][0]
    ctrl["out"]["inter"][0][0] = [v[0] + 5 * max(v[1], 1), max(v[1], 1)]
    lines.append(ctrl)
    fails, stats = tlc.validate_trace("TraceGraph", lines, tag=tag, shards=8)
    seen_ctrl = False
    for f in fails:
        if f[1] == -7:
            seen_ctrl = True
            continue
        gi, t = owner[f[1]]
        case = recs[gi]["case"]
        ctx.violation({**case, "task_kind": t["kind"]}, f"task:{t['kind']}", {"expected": f[3], "got": t["out"], "task": {k: t[k] for k in t if k not in ("agg",)}})
    if not seen_ctrl:
        raise MachineryFailure("binding control: a corrupted task record was accepted by TraceGraph.tla")
    ctx.add_traces(len(lines) - 1, stats, name="TraceGraph")
    ctx.cov["graphs_replayed"] = ctx.cov.get("graphs_replayed", 0) + nfinal
    ctx.cov["replayed_behaviours"] += nfinal
    return lines


def default_graph_cases(ctx, n):
    from . import c02

    core, rest = c02.spaces(ctx)
    cases = []
    per = max(50, n // (len(rest) + 1))
    cases += core[1].sample(ctx.rng, per)
    for sp in rest:
        cases += sp.sample(ctx.rng, per)
    cases = [c for c in cases if not (c.get("method") == "blockwise" and c.get("by_dask"))]
    for i, c in enumerate(cases):
        c["order_seed"] = (ctx.seed * 7919 + i) % 1000
    return cases


def replay_graphs(ctx, prop, cases=None):
    if cases is None:
        cases = default_graph_cases(ctx, 1500 if ctx.tier == "quick" else 20000)
    recs = pmap("harness.graphcase", "run_graph_case", cases)
    errs = harness_errors(recs)
    if errs:
        raise MachineryFailure(f"{len(errs)} harness errors, first: {errs[0]['_harness_error']}\n{errs[0].get('_tb','')}")
    validate_graph_records(ctx, recs, tag=f"{prop.lower()}-graph")
    return recs
