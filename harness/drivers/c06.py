"""C06 — position-sensitive reductions respect global positions across chunk
boundaries.

M  MC_Pipeline restricted to arg-reductions and nanfirst/nanlast over the tie
   alphabet {1, 2, NaN} (ties and NaN on both sides of every boundary), every
   chunking and tree depth: (value, global index) pairs through the grouped
   combine; first/last through both combine kinds.  MC_Tree: leaves in positional
   order at every level.
R  task-level replay (TraceGraph.tla) incl. the zipped index blocks, which must be
   the global arange cut like the array.
T  Returns (eager and chunked, all chunkings, map-reduce / cohorts / auto,
   split_every 2..4) against Ref on global positions (TraceReduce.tla).
"""
from __future__ import annotations

from .. import gen, redcase
from . import graphreplay, models, shared

FUNCS = ["argmax", "argmin", "nanargmax", "nanargmin", "nanfirst", "nanlast"]
EAGER_ONLY = ["first", "last"]
TIES = [gen.iv(1), gen.iv(2), gen.NAN]


def build(vals, codes, chunks_i, func, method, split_every, dtype="f8"):
    n = len(vals)
    comps = gen.compositions(n)
    chunks = comps[chunks_i % len(comps)]
    kind = "float" if min(codes) < 0 else "int"
    if dtype != "f8" and any(v == gen.NAN for v in vals):
        return None
    return {"func": func, "vals": vals, "dtype": dtype, "codes": codes, "label_kind": kind, "chunks": chunks, "method": method,
            "split_every": split_every}


def run(ctx):
    if ctx.tier == "quick":
        cfgs = [dict(maxlen=3, nlabels=1, ses="2", dt="f8", miss="TRUE", pos="TRUE")]
    else:
        cfgs = [dict(maxlen=4, nlabels=2, ses="2, 3", dt="f8", miss="TRUE", pos="TRUE"),
                dict(maxlen=5, nlabels=1, ses="2", dt="f8", miss="FALSE", pos="TRUE")]
    models.pipeline(ctx, configs=cfgs)
    pats = {4: [[0, 0, 0, 0], [0, 1, 0, 1], [1, 0, 0, 1], [0, -1, 0, 0]],
            5: [[0, 0, 0, 0, 0], [0, 1, 0, 1, 0], [1, 0, -1, 0, 1]],
            6: [[0, 0, 0, 0, 0, 0], [0, 1, 0, 1, 0, 1], [1, 0, 0, -1, 1, 0], [2, 0, 1, 0, 2, 1]]}
    spaces = []
    for n in (4, 5, 6):
        spaces.append(gen.Space(f"ties{n}", {"vals": gen.seqs(TIES, n), "codes": pats[n], "chunks_i": range(2 ** (n - 1)), "func": FUNCS,
                                             "method": [None, "map-reduce", "cohorts"], "split_every": [2, 3, 4]}, build))
    spaces.append(gen.Space("int5", {"vals": gen.seqs([gen.iv(1), gen.iv(2)], 5), "codes": pats[5][:2], "chunks_i": range(16), "func": FUNCS,
                                     "method": [None, "map-reduce", "cohorts"], "split_every": [2, 3]}, lambda **kw: build(dtype="i8", **kw)))
    # huge integers (2**60 + small): intermediates must keep them apart (a float64 intermediate would turn neighbours into ties)
    spaces.append(gen.Space("bigint5", {"vals": gen.seqs([gen.iv(1), gen.iv(2), gen.iv(3)], 5), "codes": pats[5][:2], "chunks_i": range(16),
                                        "func": ["argmax", "argmin", "nanargmax", "nanargmin", "nanfirst", "nanlast"], "method": [None, "map-reduce", "cohorts"], "split_every": [2, 4]},
                            lambda **kw: dict(build(dtype="i8", **kw), int_offset=2 ** 60)))
    # many blocks, partially overlapping labels: the planner merges cohorts, block tuples come out of set()s
    def build_overlap(seed, vseed, func, method, split_every):
        codes, chunks = gen.overlap_layout(seed)
        import random

        rng = random.Random(vseed * 977 + seed)
        vals = [rng.choice(TIES) for _ in codes]
        return {"func": func, "vals": vals, "dtype": "f8", "codes": codes, "label_kind": "int", "chunks": chunks, "method": method, "split_every": split_every}

    spaces.append(gen.Space("overlap12", {"seed": range(40 if ctx.tier == "quick" else 400), "vseed": range(3), "func": FUNCS, "method": [None, "cohorts", "map-reduce"],
                                          "split_every": [None, 2, 3]}, build_overlap))
    budget = 6000 if ctx.tier == "quick" else 120000
    cases = []
    for sp in spaces:
        cases += sp.sample(ctx.rng, budget // len(spaces))
    # eager first/last/nanfirst/nanlast and arg-reductions on the same data
    eager = []
    for n in (3, 4):
        for vals in gen.seqs(TIES, n):
            for codes in gen.code_patterns(n):
                for func in FUNCS + EAGER_ONLY:
                    eager.append({"func": func, "vals": vals, "dtype": "f8", "codes": codes, "label_kind": "float" if min(codes) < 0 else "int",
                                  "engine": "numpy" if func in redcase.ARG_FUNCS else None})
    eager = gen.pick(ctx.rng, eager, 3000 if ctx.tier == "quick" else 40000)
    ctx.cov["space"] = {sp.name: sp.size for sp in spaces}
    shared.run_reduce_and_validate(ctx, cases + eager, tag="c06")
    gcases = [dict(c, order_seed=i) for i, c in enumerate(gen.pick(ctx.rng, cases, 700 if ctx.tier == "quick" else 12000))]
    graphreplay.replay_graphs(ctx, "C06", gcases)
    ctx.cov["rule"] = ("(values over {1,2,NaN} with forced ties, label patterns incl. missing, ALL chunkings, 6 positional reductions (+first/last eager), "
                       "map-reduce|cohorts|auto, split_every 2..4); non-trivial = group with >=2 members or NaN")
    ctx.assumptions += ["arg-reductions are compared only on NaN-free groups (nanarg*: not-all-NaN groups), as the property states",
                        "2-axis arg-reductions are refused by flox and not covered"]


def replay(ctx, payload):
    return shared.replay_reduce(ctx, payload)
