"""C20 — numeric fidelity: infinities kept, no narrow-integer wrap, var/std of
well-conditioned data agree between eager and chunked evaluation.

M  MC_Engines over the alphabet WITH +-inf (engine wrappers = Ref; the sentinel
   comparison variant is the negative control) and MC_Laws!Exact for the var/std
   rows (sum-of-squares finalize = two-pass variance, exactly, in rationals).
T  real calls validated by TraceReduce.tla:
   (a) arrays mixing finite, NaN and +-inf, min/max/nanmin/nanmax, every engine
       incl. the automatic one, eager and every strategy;
   (b) int8/uint8/int16 arrays whose group totals exceed the input width: the
       specification's exact (unwrapped) sums/products must come back;
   (c) var/std/nanvar/nanstd of small-integer residues shifted by 0,10,100,1000
       (variance is shift invariant, so the exact value is unchanged), eager and
       chunked, projection tolerance 1e-6.
"""
from __future__ import annotations

from .. import gen, redcase
from . import models, shared
from .c02 import confined

INFALPHA = [gen.iv(-2), gen.iv(3), gen.NAN, gen.PINF, gen.NINF]
ENGINES = [None, "numpy", "numba", "flox", "numbagg"]
MODES = ["eager"] + [(m, i) for m in (None, "map-reduce", "cohorts", "blockwise") for i in (0, 1, 3, 5, 7)]


def with_mode(c, mode, codes):
    if mode == "eager":
        return c
    method, ci = mode
    comps = gen.compositions(len(codes))
    chunks = comps[ci % len(comps)]
    if method == "blockwise" and not confined(codes, chunks):
        return None
    c.update(method=method, chunks=chunks)
    return c


def build_inf(vals, codes, func, engine, mode):
    return with_mode({"func": func, "vals": vals, "dtype": "f8", "codes": codes, "label_kind": "float" if min(codes) < 0 else "int",
                      "engine": engine}, mode, codes)


def build_int(vals, codes, func, engine, mode, dtype, min_count=None):
    # keep every group total inside the model's 32-bit integers (and far inside the advertised 64-bit result dtype)
    for g in set(codes):
        mem = [v[0] for v, c in zip(vals, codes) if c == g]
        tot = 1
        for m in mem:
            tot *= m
        if func in ("prod", "nanprod") and abs(tot) >= 2**31 - 1:
            return None
    if min_count and func not in ("nansum", "nanprod"):
        return None
    if func in redcase.VAR_FUNCS | redcase.STD_FUNCS and dtype not in ("i1", "u1"):
        return None     # keep squares and cross-products inside TLC's 32-bit integers
    c = {"func": func, "vals": vals, "dtype": dtype, "codes": codes, "label_kind": "int", "engine": engine, "min_count": min_count}
    if func in redcase.VAR_FUNCS | redcase.STD_FUNCS:
        c["ddof"] = 0
    return with_mode(c, mode, codes)


def build_var(resid, offset, codes, func, engine, mode, ddof):
    vals = [v if v == gen.NAN else gen.iv(v[0] + offset) for v in resid]
    if func in ("var", "std") and any(v == gen.NAN for v in vals):
        return None
    return with_mode({"func": func, "vals": vals, "dtype": "f8", "codes": codes, "label_kind": "int", "engine": engine, "ddof": ddof,
                      "tol": 1e-6}, mode, codes)


def run(ctx):
    models.engines(ctx)
    models.laws(ctx, which=("Exact",))
    q = ctx.tier == "quick"
    spaces = [
        gen.Space("inf4", {"vals": gen.seqs(INFALPHA, 4), "codes": [[0, 0, 0, 0], [0, 1, 0, 1], [1, 0, 0, 1], [0, -1, 0, 1]],
                           "func": ["min", "max", "nanmin", "nanmax"], "engine": ENGINES, "mode": MODES}, build_inf),
        gen.Space("inf3", {"vals": gen.seqs(INFALPHA, 3), "codes": [[0, 0, 0], [0, 1, 0], [1, 0, 0]],
                           "func": ["min", "max", "nanmin", "nanmax", "sum", "nansum", "mean", "nanmean", "first", "nanlast"], "engine": ENGINES, "mode": MODES[:6]}, build_inf),
    ]
    for dt, alpha in (("i1", [gen.iv(-128), gen.iv(-100), gen.iv(100), gen.iv(127), gen.iv(2)]), ("u1", [gen.iv(200), gen.iv(255), gen.iv(3), gen.iv(128)]),
                      ("i2", [gen.iv(-32768), gen.iv(32767), gen.iv(30000), gen.iv(2)]), ("u2", [gen.iv(65535), gen.iv(40000), gen.iv(2)])):
        spaces.append(gen.Space(f"wrap-{dt}", {"vals": gen.seqs(alpha, 4), "codes": [[0, 0, 0, 0], [0, 1, 0, 1], [1, 0, 0, 0]],
                                               "func": ["sum", "nansum", "prod", "nanprod", "mean", "max", "count", "var", "nanvar", "std"], "engine": ENGINES, "mode": MODES,
                                               "dtype": [dt], "min_count": [None, 1]}, build_int))
    resid = [[gen.iv(0), gen.iv(1), gen.iv(2), gen.iv(3), gen.iv(1), gen.iv(0)], [gen.iv(-2), gen.iv(2), gen.iv(0), gen.iv(5), gen.iv(5), gen.iv(-1)],
             [gen.iv(1), gen.NAN, gen.iv(4), gen.iv(2), gen.NAN, gen.iv(3)]]
    spaces.append(gen.Space("var-shift", {"resid": resid, "offset": [0, 10, 100, 1000], "codes": [[0, 0, 0, 0, 0, 0], [0, 1, 0, 1, 0, 1], [1, 1, 0, 0, 0, 1]],
                                          "func": ["var", "std", "nanvar", "nanstd"], "engine": ENGINES,
                                          "mode": ["eager"] + [(m, i) for m in (None, "map-reduce", "cohorts") for i in range(0, 32, 3)], "ddof": [0, 1]}, build_var))
    budget = 24000 if q else 400000
    cases = []
    for sp in spaces:
        cases += sp.sample(ctx.rng, budget // len(spaces))
    ctx.cov["space"] = {sp.name: sp.size for sp in spaces}
    shared.run_reduce_and_validate(ctx, cases, tag="c20")
    ctx.cov["rule"] = ("(a) 5-symbol alphabet incl. NaN,+-inf x label patterns x min/max family x 5 engine settings x eager|strategy|chunking; (b) narrow ints with totals "
                       "beyond the input width; (c) var/std on residues shifted by {0,10,100,1000}; non-trivial = group with >=2 members or a special value")
    ctx.assumptions += ["no rounding-error bound is claimed: var/std are compared with the exact rational within 1e-6 relative on well-conditioned shifted data",
                        "float32 and 64-bit integer extremes are outside the model (TLC integers are 32-bit)"]


def replay(ctx, payload):
    return shared.replay_reduce(ctx, payload)
