"""Pieces shared by the drivers whose binding is the `Reduce` trace family
(spec/TraceReduce.tla)."""
from __future__ import annotations

import copy
import json

from .. import redcase, tlc
from ..common import MachineryFailure, harness_errors, pmap


def is_special(v):
    return v[1] == 0


def case_nontrivial(case) -> bool:
    codes, vals = case["codes"], case["vals"]
    for g in set(codes):
        if g < 0:
            continue
        mem = [v for v, c in zip(vals, codes) if c == g]
        if len(mem) >= 2 or any(is_special(v) for v in mem):
            return True
    return False


def case_key(case, extra=()):
    return json.dumps([case.get(k) for k in ("func", "engine", "method", "vals", "codes", "chunks", "req", "fill", "min_count", "sort", "ddof", "q", "dtype", "reindex", "by_dask", "split_every") + tuple(extra)], default=str)


def run_reduce_and_validate(ctx, cases, *, tag, runner=("harness.redcase", "run_reduce_case"),
                            refusal_is_violation=False, check_groups=True, post=None):
    """run the cases on real flox, validate every Return with TraceReduce.tla.
    Returns the list of records (with 'verdict')."""
    recs = pmap(runner[0], runner[1], cases)
    errs = harness_errors(recs)
    if errs:
        raise MachineryFailure(f"{len(errs)} harness errors, first: {errs[0]['_harness_error']}\n{errs[0].get('_tb','')}")
    lines = []
    by_id = {}
    refused = 0
    for i, rec in enumerate(recs):
        rec["_id"] = i
        ctx.cov["evaluations"] += 1
        if "exc" in rec:
            if rec["exc"] == "ProjectionError":
                raise MachineryFailure(f"projection failed: {rec['msg']} on {rec}")
            if rec["exc"] in redcase.CLEAN_REFUSALS and not refusal_is_violation:
                refused += 1
                continue
            ctx.violation(_strip(rec), f"exception:{rec['exc']}", rec.get("msg"))
            continue
        if case_nontrivial(rec):
            ctx.nontrivial(case_key(rec))
        if post is not None:
            post(ctx, rec)
        by_id[i] = rec
        lines.append(redcase.tlc_record(rec, i, check_groups=check_groups))
    ctx.cov["refused_cleanly"] = ctx.cov.get("refused_cleanly", 0) + refused
    if not lines:
        raise MachineryFailure("no call produced a result")
    # binding sanity: a corrupted copy of one record must be rejected
    ctrl = copy.deepcopy(lines[len(lines) // 2])
    ctrl["id"] = -7
    bumped = False
    exp_ok = True
    for k, v in enumerate(ctrl["out"]):
        if v[1] > 0:
            ctrl["out"][k] = [v[0] * 1 + 7 * v[1], v[1]]
            bumped = True
            break
    if not bumped:
        ctrl["out"] = ctrl["out"] + [[1, 1]]
    lines.append(ctrl)
    fails, stats = tlc.validate_trace("TraceReduce", lines, tag=tag, shards=8)
    ctrl_seen = False
    for f in fails:
        rid, clauses = f[1], f[2]
        if rid == -7:
            ctrl_seen = True
            continue
        rec = by_id[rid]
        ctx.violation(_strip(rec), "+".join(sorted(clauses)), {"expected": f[3] if len(f) > 3 else None, "got": rec["out"], "groups": rec["groups"]})
    if not ctrl_seen:
        raise MachineryFailure("binding control: the corrupted trace record was accepted by TraceReduce.tla")
    ctx.add_traces(len(lines) - 1, stats, name="TraceReduce")
    for rec in list(by_id.values())[:: max(1, len(by_id) // 4)][:4]:
        ctx.sample({k: rec.get(k) for k in ("func", "engine", "method", "chunks", "dtype", "vals", "codes", "req", "fill", "min_count", "sort", "groups", "out") if rec.get(k) is not None})
    return recs


def _strip(rec):
    return {k: v for k, v in rec.items() if not k.startswith("_")}


def replay_reduce(ctx, payload, runner=None):
    """re-execute exactly the case stored in a replay file"""
    case = payload["case"]
    case = {k: v for k, v in case.items() if k not in ("groups", "out", "exc", "msg", "lazy")}
    import importlib

    if runner is None:
        runner = ("harness.redcase", "run_reduce_case")
    fn = getattr(importlib.import_module(runner[0]), runner[1])
    rec = fn(case)
    print(json.dumps(rec, default=str))
    if "exc" in rec:
        print(f"VIOLATION property={ctx.prop} replay=- clause=exception:{rec['exc']}")
        return 1
    fails, _ = tlc.validate_trace("TraceReduce", [redcase.tlc_record(rec, 0)], tag="replay", shards=1)
    if fails:
        print(f"VIOLATION property={ctx.prop} replay=- clause={fails[0][2]} expected={fails[0][3]}")
        return 1
    print("replay: case now satisfies the property")
    return 0


# ------------------------------------------------------------------ models
def run_model(ctx, module, cfg, *, name, constants="", workers=16, timeout=600, coverage=False,
              must_cover=(), extra=(), heap="4g"):
    """run a TLC model; a violated invariant is returned to the caller (it is
    not by itself an alarm about the code)."""
    wd = tlc.new_workdir(name)
    try:
        res = tlc.run_tlc(module, cfg, wd, workers=workers, timeout=timeout, coverage=coverage, extra=extra, heap=heap)
        tlc.require_ok(res, f"model {name}")
        ctx.add_model(name, res, constants)
        for act in must_cover:
            if res.coverage.get(act, 0) == 0:
                raise MachineryFailure(f"model {name}: action {act} never taken (vacuity guard)")
        return res
    finally:
        tlc.cleanup(wd)


def model_engines(ctx):
    from . import models

    models.engines(ctx)
