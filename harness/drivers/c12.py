"""C12 — graph construction is lazy; labels found at compute time give the same
mapping.

M  Lifecycle.tla (idle -> constructing -> returned -> computing): NoEagerEvaluation,
   ReturnsLazy, NoPeekingAtChunkedLabels.
R  every configuration cell (groupby_reduce / groupby_scan / xarray_reduce x
   reduction x strategy x engine x reindex x numpy|dask labels x expected_groups) is
   replayed with POISONED inputs: every chunk of the value array and of chunked
   labels is wrapped in a probe that logs its evaluation.  The event stream
   (call / eval / return / compute) is validated by TraceLazy.tla, the stateful
   trace specification of Lifecycle.tla.
T  for chunked labels without expected_groups the (labels found, values) mapping is
   validated by TraceReduce.tla against Ref.
"""
from __future__ import annotations

import warnings

import numpy as np

from .. import gen, redcase, tlc
from ..common import MachineryFailure, harness_errors, pmap
from . import shared

EVENTS = []


def _probe(block, cid=None):
    EVENTS.append({"ev": "eval", "c": cid})
    return block


def poisoned(arr, chunks, name):
    import dask.array as da

    d = da.from_array(arr, chunks=chunks)
    # one probe task per block; cid is fixed per array (which array was touched is what matters)
    return d.map_blocks(_probe, cid=name, dtype=d.dtype, meta=d._meta)


def run_lazy_case(case):
    import dask
    import xarray as xr

    import flox.xarray as fx
    from flox.core import groupby_reduce, groupby_scan

    warnings.filterwarnings("ignore")
    del EVENTS[:]
    codes = case["codes"]
    n = len(codes)
    kind = "float" if min(codes) < 0 else "int"
    vals = [gen.iv((3 * i) % 7 - 3) if i % 4 != 3 else gen.NAN for i in range(n)]
    array = redcase.concretize(vals, "f8")
    by = redcase.label_array(codes, kind)
    ch = (tuple(case["chunks"]),)
    arr = poisoned(array, ch, "array")
    byy = poisoned(by, ch, "labels") if case["by_dask"] else by
    out = dict(case, vals=vals)
    kw = {}
    req = None
    if case["expected"]:
        req = sorted({c for c in codes if c >= 0})
        kw["expected_groups"] = np.array([redcase.LABELS[kind][t] for t in req])
    try:
        EVENTS.append({"ev": "call"})
        if case["api"] == "reduce":
            for k in ("method", "engine", "reindex"):
                if case.get(k) is not None:
                    kw[k] = case[k]
            if case["func"] in ("nanquantile",):
                kw["finalize_kwargs"] = {"q": 0.5}
            if case.get("variant") == "sort_false_min_count":
                kw.update(sort=False, min_count=2, fill_value=-1 if "arg" in case["func"] else np.nan)
            res, grp = groupby_reduce(arr, byy, func=case["func"], **kw)
        elif case["api"] == "scan":
            res, grp = groupby_scan(arr, byy, func=case["func"]), None
        else:
            da_ = xr.DataArray(arr, dims="x", coords={"lab": ("x", byy)}, name="v")
            xkw = {k: case[k] for k in ("method", "engine") if case.get(k) is not None}
            if case["expected"]:
                xkw["expected_groups"] = kw["expected_groups"]
            if case["func"] == "nanquantile":
                xkw["q"] = 0.5
            r = fx.xarray_reduce(da_, "lab", func=case["func"], **xkw)
            res, grp = r.data, r["lab"].data
        lazy = hasattr(res, "dask")
        EVENTS.append({"ev": "return", "lazy": bool(lazy)})
        out["nevents_before_compute"] = sum(1 for e in EVENTS if e["ev"] == "eval")
        EVENTS.append({"ev": "compute"})
        if lazy:
            if grp is not None and hasattr(grp, "dask"):
                r, g = dask.compute(res, grp, scheduler="synchronous")
            else:
                r, g = res.compute(scheduler="synchronous"), grp
        else:
            r, g = res, grp
        out["events"] = list(EVENTS)
        if case["api"] != "scan":
            out["groups"] = redcase.label_tokens(g, kind)
            out["out"] = redcase.project_out(case["func"], r)
    except Exception as e:  # noqa: BLE001
        out.update(exc=type(e).__name__, msg=str(e)[:200], events=list(EVENTS))
    return out


REDUCTIONS = ["sum", "nanmean", "count", "nanmax", "var", "argmax", "nanfirst", "first", "nanquantile", "prod"]
LAYOUTS = [([0, 1, 0, 1, 2, 2, 0, 1], [2, 2, 2, 2]), ([0, 0, 1, 1, 2, 2, 2, 2], [2, 2, 4]), ([1, 0, 2, 0, 1, 2], [6]), ([0, 1, 0, 1, 0, 1], [1] * 6),
           ([0, -1, 1, -1, 0, 1], [3, 3]), ([2, 0, 2, 0, 1, 1, 0, 2], [3, 3, 2]),
           ([-1, -1, -1, -1], [2, 2]),     # every label missing: no group at all, still lazy
           ([0, 1, 2, 3, 4, 5], [2, 2, 2]), ([3, 1, 0, 2], [1, 3]),          # every group has a single member
           ([5, 3, 5, 1, 3, 5, 4, 4, 0], [3, 3, 3])]                         # appearance order != sorted order, groups of 1-3 members


def build(api, func, method, engine, reindex, by_dask, expected, layout, variant=None):
    codes, chunks = LAYOUTS[layout]
    if variant and not (api == "reduce" and by_dask and not expected and func not in ("first", "nanquantile")):
        return None
    if expected and max(codes) < 0:
        return None
    if api == "scan":
        if func not in ("nancumsum", "ffill", "bfill") or method or engine or reindex is not None or expected:
            return None
        if func == "nancumsum" and min(codes) < 0:
            return None
    elif func in ("nancumsum", "ffill", "bfill"):
        return None
    if api == "xarray" and (reindex is not None or (by_dask and not expected)):
        return None
    from .c02 import confined

    if method == "blockwise" and not confined(codes, chunks):
        return None     # explicit blockwise only on inputs meeting its precondition
    return {"api": api, "func": func, "method": method, "engine": engine, "reindex": reindex, "by_dask": by_dask, "expected": expected,
            "codes": codes, "chunks": chunks, "variant": variant}


def run(ctx):
    cfg = "SPECIFICATION Spec\nCHECK_DEADLOCK FALSE\nCONSTANTS NChunks = 3\nINVARIANT NoEagerEvaluation\nINVARIANT ReturnsLazy\nINVARIANT NoPeekingAtChunkedLabels\n"
    res = shared.run_model(ctx, "Lifecycle", cfg, name="Lifecycle", constants="NChunks=3", coverage=True, must_cover=("Call", "Return", "Compute", "EvalChunk"))
    if res.violated:
        raise MachineryFailure(f"Lifecycle: {res.violated} violated")
    sp = gen.Space("cells", {"api": ["reduce", "reduce", "scan", "xarray"], "func": REDUCTIONS + ["nancumsum", "ffill", "bfill"],
                             "method": [None, "map-reduce", "cohorts", "blockwise"], "engine": [None, "numpy", "flox", "numbagg"], "reindex": [None, True, False],
                             "by_dask": [False, True], "expected": [False, True], "layout": range(len(LAYOUTS)),
                             # labels found at compute time with sort=False and a min_count that masks some groups
                             "variant": [None, None, "sort_false_min_count"]}, build)
    cases = sp.sample(ctx.rng, 2500 if ctx.tier == "quick" else 40000)
    # every scan cell (few) is visited whatever the sample
    scans = gen.Space("scans", {"api": ["scan"], "func": ["nancumsum", "ffill", "bfill"], "method": [None], "engine": [None], "reindex": [None],
                                "by_dask": [False, True], "expected": [False], "layout": range(len(LAYOUTS))}, build)
    have = {str(c) for c in cases}
    cases += [c for c in scans.all() if str(c) not in have]
    ctx.cov["space"] = {"cells": sp.size, "visited": len(cases)}
    recs = pmap("harness.drivers.c12", "run_lazy_case", cases)
    errs = harness_errors(recs)
    if errs:
        raise MachineryFailure(f"{len(errs)} harness errors, first: {errs[0]['_harness_error']}\n{errs[0].get('_tb','')}")
    lines, owner, red, red_owner = [], {}, [], {}
    accepted = 0
    for rec in recs:
        ctx.cov["evaluations"] += 1
        brief = {k: rec.get(k) for k in ("api", "func", "method", "engine", "reindex", "by_dask", "expected", "codes", "chunks", "variant", "exc", "msg")}
        evs = rec.get("events", [])
        if "exc" in rec:
            refused_in_call = not any(e["ev"] == "return" for e in evs)
            if rec["exc"] in redcase.CLEAN_REFUSALS and refused_in_call:
                # a refusal at call time must not have evaluated anything either
                if any(e["ev"] == "eval" for e in evs):
                    ctx.violation(brief, "chunk-evaluated-before-refusal", None)
                ctx.cov["refused_cleanly"] = ctx.cov.get("refused_cleanly", 0) + 1
                continue
            if rec["exc"] in redcase.CLEAN_REFUSALS or (rec.get("method") == "blockwise" and rec.get("by_dask")):
                continue   # compute-time problems belong to C19/C02 (known finding F02/F06)
            ctx.violation(brief, f"exception:{rec['exc']}", rec["msg"])
            continue
        accepted += 1
        for e in evs:
            e = dict(e, id=len(lines))
            e.setdefault("lazy", True)
            e.setdefault("c", "-")
            owner[e["id"]] = brief
            lines.append(e)
        ctx.nontrivial(str(brief))
        if rec["api"] == "reduce" and rec["by_dask"] and not rec["expected"] and "out" in rec:
            r = {"func": rec["func"], "vals": rec["vals"], "codes": rec["codes"], "groups": rec["groups"], "out": rec["out"], "sort": True,
                 "ddof": 0, "q": [1, 2]}
            if rec.get("variant") == "sort_false_min_count":
                r.update(sort=False, min_count=2, fill=[-1, 1] if "arg" in rec["func"] else [0, 0], chunks=rec["chunks"])
            red_owner[len(red)] = brief
            red.append(redcase.tlc_record(r, len(red)))
    if not lines:
        raise MachineryFailure("no accepted call")
    ctrl = [{"id": -7, "ev": "call", "lazy": True, "c": "-"}, {"id": -7, "ev": "eval", "lazy": True, "c": "array"}, {"id": -7, "ev": "return", "lazy": False, "c": "-"},
            {"id": -7, "ev": "compute", "lazy": True, "c": "-"}]
    fails, stats = tlc.validate_trace("TraceLazy", lines + ctrl, tag="c12", shards=1, timeout=1800)
    seen = set()
    for f in fails:
        if f[1] == -7:
            seen |= set(f[2])
            continue
        ctx.violation(owner[f[1]], "+".join(sorted(f[2])), None)
    if not ({"not-lazy", "chunk-evaluated-while-constructing"} <= seen):
        raise MachineryFailure(f"TraceLazy control was accepted ({seen})")
    ctx.add_traces(len(lines), stats, name="TraceLazy")
    ctx.cov["accepted_calls"] = accepted
    ctx.cov["replayed_behaviours"] += accepted
    if red:
        fails, stats = tlc.validate_trace("TraceReduce", red, tag="c12-map", shards=4)
        for f in fails:
            ctx.violation(red_owner[f[1]], "labels-found-at-compute-time:" + "+".join(sorted(f[2])), {"expected": f[3], "got": red[f[1]]["out"], "groups": red[f[1]]["groups"]})
        ctx.add_traces(len(red), stats, name="TraceReduce(unknown labels)")
    ctx.sample({"cell": {k: recs[0].get(k) for k in ("api", "func", "method", "engine", "by_dask", "expected")}, "events": recs[0].get("events", [])[:6]})
    ctx.cov["rule"] = ("cells = (groupby_reduce | groupby_scan | xarray_reduce) x 13 functions x method x engine x reindex x numpy|dask labels x expected_groups x 6 layouts, "
                       "inputs wrapped in evaluation probes; non-trivial = distinct accepted cell")
    ctx.assumptions += ["object-dtype labels are outside the property's scope and not exercised"]
    # FloxScan.tla behaviours replayed into groupby_scan: the result is lazy exactly when the array is chunked (pass-through and
    # single-member shortcut included) and no task runs while the graph is being built (dask callback spy)
    from . import composescan

    composescan.replay(ctx, {"scan:lazy"}, n=600 if ctx.tier == "quick" else 12000, report_others=False)


def replay(ctx, payload):
    case = {k: v for k, v in payload["case"].items() if k in ("api", "func", "method", "engine", "reindex", "by_dask", "expected", "codes", "chunks", "variant")}
    rec = run_lazy_case(case)
    print({k: v for k, v in rec.items() if k not in ("vals",)})
    return 0
