"""C14 — no side effects; results independent of call history and of co-computed
results.

M  Api.tla: NamesInjective over gen/NameDeps.tla (which ingredients change each layer
   family's key names, EXTRACTED from the live code) against SemDependsOn (which
   ingredients change what the family computes); the call-history machine with the
   memo cache keyed as in the code (MemoSound, RegistryUntouched); TLC -simulate
   generates the histories that are replayed.
R  (i) TLC-generated histories replayed in fresh subprocesses: after every call the
       digests of all argument buffers and a structural snapshot of AGGREGATIONS;
       each result compared with the same call made first in a fresh process;
   (ii) every pair / triple of lazy results differing in one ingredient: shared keys
       executed under both task definitions, merged-graph evaluation in both orders
       vs separate evaluation.
T  all records validated by the stateful trace specification TraceApi.tla.
"""
from __future__ import annotations

import copy
import itertools
import json

import numpy as np

from .. import apicalls, extract, gen, tlc
from ..common import MachineryFailure, harness_errors, pmap
from . import shared


def pair_cases():
    cases = []

    def add(base, ing, var, extra=None):
        cases.append({"ingredient": ing, "a": base, "b": dict(base, **var), "c": extra})

    for ing, var in apicalls.VARIANTS.items():
        add(apicalls.BASE, ing, var)
        add(dict(apicalls.BASE, method="cohorts"), ing, var) if ing != "method" else None
    add(apicalls.QBASE, "q", dict(q=0.75))
    add(dict(apicalls.BASE, func="nanmedian", labels="L_CONF", method="blockwise", ddof=None, min_count=None), "func", dict(func="nanquantile", q=0.5))
    for ing, var in (("array", dict(array="A2")), ("labels", dict(labels="L2")), ("chunks", dict(chunks=3)), ("func", dict(func="nanargmin")),
                     ("method", dict(method="cohorts")), ("fill_value", dict(fill_value=-5))):
        add(apicalls.ARGBASE, ing, var)
    for ing, var in (("array", dict(array="A2")), ("labels", dict(labels="L2")), ("func", dict(func="ffill")), ("chunks", dict(chunks=3))):
        add(apicalls.SCANBASE, ing, var)
        add(dict(apicalls.SCANBASE, func="bfill"), ing, var) if ing != "func" else None
    for ing, var in (("array", dict(array="A2")), ("labels", dict(labels="L2")), ("func", dict(func="nanmax")), ("sort", dict(sort=False)), ("engine", dict(engine="flox")),
                     ("method", dict(method=None))):
        add(apicalls.UNKBASE, ing, var)
        if ing != "labels":
            add(dict(apicalls.UNKBASE, labels="L2"), ing, var)     # labels whose order of appearance is not the sorted order
    # Aggregation INSTANCES handed in as `func` (a user-defined one and the library's own blueprint object)
    ub = dict(apicalls.BASE, func="user_range", func_obj="user:user_range", ddof=None, min_count=None, fill_value=-1.0, expected=[0, 1, 2, 3])
    add(ub, "fill_value", dict(fill_value=-2.0))
    add(ub, "array", dict(array="A3"))
    rb = dict(apicalls.BASE, func="nanmax", func_obj="registry:nanmax", ddof=None, min_count=None, fill_value=None, expected=None)
    add(rb, "array", dict(array="A3"))
    add(dict(rb, array="A3"), "func_obj", dict(func_obj=None, array="A1", expected=[0, 1, 2, 3], fill_value=np.nan))
    # triples: three variables of one "Dataset"
    add(apicalls.BASE, "ddof", dict(ddof=1), extra=dict(apicalls.BASE, ddof=2))
    add(apicalls.ARGBASE, "array", dict(array="A2"), extra=dict(apicalls.ARGBASE, func="nanargmin"))
    add(apicalls.SCANBASE, "array", dict(array="A2"), extra=dict(apicalls.SCANBASE, labels="L2"))
    add(apicalls.BASE, "min_count", dict(min_count=2), extra=dict(apicalls.BASE, min_count=3))
    return cases


HIST_CALLS = [apicalls.BASE, dict(apicalls.BASE, ddof=1), dict(apicalls.BASE, array="A2"), dict(apicalls.BASE, labels="L2"), dict(apicalls.BASE, method="cohorts"),
              dict(apicalls.BASE, method="blockwise", labels="L_CONF", chunks=3), dict(apicalls.BASE, method="blockwise", labels="L_CONF", chunks=2),
              dict(apicalls.BASE, min_count=2), apicalls.ARGBASE, dict(apicalls.ARGBASE, array="A2"), apicalls.SCANBASE, dict(apicalls.SCANBASE, array="A2"),
              dict(apicalls.BASE, chunks=None), dict(apicalls.BASE, chunks=None, engine="flox"), apicalls.QBASE, dict(apicalls.QBASE, q=0.75),
              # the same Aggregation instances reused across calls with other dtypes / fills, and the registry blueprint handed in as an object
              dict(apicalls.BASE, func="nanmax", func_obj="registry:nanmax", array="A3", ddof=None, min_count=None, fill_value=None, expected=None),
              dict(apicalls.BASE, func="nanmax", ddof=None, min_count=None, fill_value=np.nan, expected=[0, 1, 2, 3]),
              dict(apicalls.BASE, func="nanmax", ddof=None, min_count=None, fill_value=np.nan, expected=[0, 1, 2, 3], chunks=None),
              dict(apicalls.BASE, func="user_range", func_obj="user:user_range", array="A3", ddof=None, min_count=None, fill_value=-1, expected=[0, 1, 2, 3]),
              dict(apicalls.BASE, func="user_range", func_obj="user:user_range", ddof=None, min_count=None, fill_value=np.nan, expected=[0, 1, 2, 3]),
              dict(apicalls.BASE, func="user_range", func_obj="user:user_range", ddof=None, min_count=None, fill_value=-2.0, expected=[0, 1, 2, 3]),
              # other argument OBJECTS reused across calls: a ReindexStrategy the caller built ("let flox decide"), an unsorted pandas Index
              # as expected_groups, a finalize_kwargs dict
              dict(apicalls.BASE, chunks=None, method=None, reindex=None, reindex_obj="strategy:none"),
              dict(apicalls.BASE, func="nanfirst", array="A3", method=None, reindex=None, reindex_obj="strategy:none", ddof=None, min_count=None, fill_value=-1, dtype=None),
              dict(apicalls.BASE, method="cohorts", reindex=None, reindex_obj="strategy:none"),
              dict(apicalls.BASE, expected=None, expected_obj="index:unsorted"),
              dict(apicalls.BASE, expected=None, expected_obj="index:unsorted", sort=False, chunks=None),
              dict(apicalls.BASE, ddof=None, fk_obj="fk:ddof1"),
              dict(apicalls.BASE, ddof=None, fk_obj="fk:ddof1", func="nanstd", chunks=None)]


def memo_tables():
    """MemoKeyOf / MemoInputsOf of the history calls, from the live tokenizer"""
    import dask

    arrs = apicalls.arrays()
    keys, inputs = [], []
    for cfg in HIST_CALLS:
        n = len(arrs[cfg["array"]])
        ch = cfg.get("chunks") or n
        chunks = tuple([ch] * (n // ch) + ([n % ch] if n % ch else []))
        lab = arrs[cfg["labels"]]
        keys.append(dask.base.tokenize(chunks, lab))
        inputs.append(json.dumps([list(chunks), lab.tolist()]))
    return keys, inputs


def run(ctx):
    q = ctx.tier == "quick"
    pcs = pair_cases()
    precs = pmap("harness.pairs", "run_pair_case", pcs, nproc=8)
    errs = harness_errors(precs)
    if errs:
        raise MachineryFailure(f"{len(errs)} harness errors, first: {errs[0]['_harness_error']}\n{errs[0].get('_tb','')}")
    observed, changes = set(), set()
    for rec in precs:
        if "exc" in rec:
            continue
        for f in rec["observed"]:
            observed.add((f, rec["ingredient"]))
        for f in rec["changed"]:
            changes.add((f, rec["ingredient"]))
    # an ingredient counts as changing a family's names only if it does so in EVERY pair that exercises it
    for rec in precs:
        if "exc" in rec:
            continue
        for f in rec["observed"]:
            if f not in rec["changed"]:
                changes.discard((f, rec["ingredient"]))
    keys, inputs = memo_tables()
    ingredients = sorted({r["ingredient"] for r in precs})
    extract.GEN.mkdir(exist_ok=True)
    (extract.GEN / "NameDeps.tla").write_text(
        "------------------------------ MODULE NameDeps ------------------------------\n"
        "\\* GENERATED by harness/drivers/c14.py from the live code in /repo -- do not edit\n"
        f"Ingredients == {{{', '.join(json.dumps(i) for i in ingredients)}}}\n"
        f"ObservedPairs == {{{', '.join('<<%s, %s>>' % (json.dumps(f), json.dumps(i)) for f, i in sorted(observed))}}}\n"
        f"NameChanges == {{{', '.join('<<%s, %s>>' % (json.dumps(f), json.dumps(i)) for f, i in sorted(changes))}}}\n"
        f"MemoKeyOf == <<{', '.join(json.dumps(k) for k in keys)}>>\n"
        f"MemoInputsOf == <<{', '.join(json.dumps(k) for k in inputs)}>>\n"
        "=============================================================================\n")
    ctx.cov["name_deps"] = {"observed": len(observed), "name_changes": len(changes)}
    nh = 3 if q else 4
    cfg = (f"SPECIFICATION Spec\nCHECK_DEADLOCK FALSE\nCONSTANTS NCalls = {len(HIST_CALLS)}\nMaxHist = {nh}\nINVARIANT RegistryUntouched\n"
           "INVARIANT MemoSound\nINVARIANT NamesInjective\n")
    res = shared.run_model(ctx, "Api", cfg, name="Api", constants=f"NCalls={len(HIST_CALLS)}, MaxHist={nh}", timeout=1800)
    missing = set()
    if res.violated == "NamesInjective":
        sem = {"chunk": {"array", "labels", "func", "dtype"}, "argpre": {"array"}, "scanpre": {"array", "labels"},
               "cohort_subset": {"array", "labels", "func"},
               "tree": {"array", "labels", "func", "ddof", "min_count", "fill_value", "dtype", "expected"},
               "cohort_reduce": {"array", "labels", "func", "ddof", "min_count", "fill_value", "dtype", "expected"},
               "extract": {"array", "labels", "func", "ddof", "q", "min_count", "fill_value", "dtype", "expected"}}
        missing = {(f, i) for f, s in sem.items() for i in s if (f, i) in observed and (f, i) not in changes}
        ctx.cov["names_missing_ingredient"] = sorted(missing)
    elif res.violated:
        raise MachineryFailure(f"Api.tla: {res.violated} violated")
    # histories from TLC (-simulate)
    wd = tlc.new_workdir("api-sim")
    try:
        cfg2 = f"SPECIFICATION Spec\nCHECK_DEADLOCK FALSE\nCONSTANTS NCalls = {len(HIST_CALLS)}\nMaxHist = {nh}\nINVARIANT EmitHistory\n"
        sim = tlc.run_tlc("Api", cfg2, wd, workers=1, timeout=600, extra=("-simulate", f"num={40 if q else 400}", "-depth", str(nh + 2), "-seed", str(ctx.seed + 1)))
    finally:
        tlc.cleanup(wd)
    hists = [h[1] for h in sim.printed("HIST")]
    if not hists:
        raise MachineryFailure(f"TLC produced no history:\n{sim.out[-1500:]}")
    ctx.add_model("Api(-simulate histories)", sim, f"{len(hists)} histories")
    hcases = [{"calls": HIST_CALLS, "seq": [c - 1 for c in h]} for h in hists] + [{"calls": HIST_CALLS, "seq": [i]} for i in range(len(HIST_CALLS))]
    hrecs = pmap("harness.pairs", "run_history_case", hcases, nproc=12)
    errs = harness_errors(hrecs)
    if errs:
        raise MachineryFailure(f"{len(errs)} harness errors, first: {errs[0]['_harness_error']}")
    lines, owner = [], {}
    for rec in hrecs[len(hists):]:
        if "exc" in rec:
            raise MachineryFailure(f"reference call failed: {rec['msg']}")
        e = rec["events"][0]
        lines.append({"id": len(lines), "kind": "ref", "call": e["call"], "dig": e["dig"], "args_unchanged": True, "registry_unchanged": True,
                      "conflicts": [], "together_equal": True})
        if not (e["args_unchanged"] and e["registry_unchanged"]):
            ctx.violation({"call": HIST_CALLS[e["call"]]}, "single-call-side-effect", e)
    for rec in hrecs[: len(hists)]:
        ctx.cov["evaluations"] += 1
        if "exc" in rec:
            raise MachineryFailure(f"history process failed: {rec['msg']}")
        for e in rec["events"]:
            line = {"id": len(lines), "kind": "hist", "call": e["call"], "dig": e["dig"], "args_unchanged": e["args_unchanged"],
                    "registry_unchanged": e["registry_unchanged"], "conflicts": [], "together_equal": True}
            owner[line["id"]] = {"history": rec["seq"], "step": e, "call": HIST_CALLS[e["call"]]}
            lines.append(line)
        ctx.nontrivial(("hist", tuple(rec["seq"])))
    for rec in precs:
        ctx.cov["evaluations"] += 1
        brief = {k: rec.get(k) for k in ("ingredient", "a", "b", "c", "exc", "msg")}
        if "exc" in rec:
            if rec["exc"] in ("ValueError", "NotImplementedError"):
                continue
            ctx.violation(brief, f"exception:{rec['exc']}", rec["msg"])
            continue
        line = {"id": len(lines), "kind": "pair", "call": -1, "dig": "-", "args_unchanged": rec["args_unchanged"], "registry_unchanged": True,
                "conflicts": rec["conflicts"], "together_equal": rec["together_equal"]}
        owner[line["id"]] = brief
        lines.append(line)
        ctx.nontrivial(("pair", rec["ingredient"], json.dumps(rec["a"], sort_keys=True, default=str)))
    ctrl = {"id": -7, "kind": "pair", "call": -1, "dig": "-", "args_unchanged": False, "registry_unchanged": True, "conflicts": ["k"], "together_equal": False}
    fails, stats = tlc.validate_trace("TraceApi", lines + [ctrl], tag="c14", shards=1, timeout=1800)
    seen = False
    confirmed = set()
    for f in fails:
        if f[1] == -7:
            seen = {"latent-key-conflict", "co-computed-differs", "argument-modified"} <= set(f[2])
            continue
        o = owner[f[1]]
        prop = sorted(set(f[2]) - {"latent-key-conflict"})
        if not prop:
            ctx.drift.append(f"latent key conflict (same key, different task, same merged values): ingredient={o.get('ingredient')} func={(o.get('a') or {}).get('func')} method={(o.get('a') or {}).get('method')}")
            continue
        ctx.violation(o, "+".join(prop), None)
        if "ingredient" in o:
            confirmed.add(o["ingredient"])
    if not seen:
        raise MachineryFailure("TraceApi control accepted")
    for (f, i) in sorted(missing):
        if i not in confirmed:
            ctx.drift.append(f"key names of layer family '{f}' do not depend on ingredient '{i}' (TLC: NamesInjective) but the pair replay found no conflicting task")
    ctx.add_traces(len(lines), stats, name="TraceApi")
    ctx.cov["histories_replayed"] = len(hists)
    ctx.cov["pairs_and_triples"] = len(precs)
    ctx.cov["replayed_behaviours"] += len(hists)
    ctx.sample({"history": hcases[0]["seq"], "events": hrecs[0].get("events")})
    ctx.sample({"pair": {k: precs[0].get(k) for k in ("ingredient", "observed", "changed", "nshared", "conflicts", "together_equal")}})
    ctx.cov["rule"] = ("histories: TLC-simulated sequences of length 3|4 over 16 calls differing pairwise in one ingredient, each in a fresh process; pairs/triples: every "
                       "ingredient (array, labels, func, ddof, q, min_count, fill_value, dtype, method, engine, sort, reindex, expected_groups, chunks) for the reduction, "
                       "quantile, arg-reduction, scan and unknown-label families; non-trivial = distinct history / pair")
    ctx.assumptions += ["content digests identify values; argument buffers are the five arrays of harness/apicalls.py",
                        "an ingredient missing from a family's names without an observable conflict is reported as DRIFT (names may be shared when the tasks are equal)"]


def replay(ctx, payload):
    from .. import pairs

    case = payload["case"]
    if "ingredient" in case:
        print(pairs.run_pair_case({k: case[k] for k in ("ingredient", "a", "b", "c")}))
    else:
        print(pairs.run_history_case({"calls": HIST_CALLS, "seq": case["history"]}))
    return 0
