"""C02 — chunked = eager for every strategy, reindex mode, chunking.

M  spec/MC_Pipeline: TLC checks the chunk -> (reindex) -> combine tree -> finalize
   pipeline of Aggs.tla, interpreted over the blueprint table extracted from the
   live registry, against Ref for every input, chunking and combine kind.
R  task-by-task replay of real graphs (harness/sched.py) against Aggs!Sem
   (TraceGraph.tla).
T  every Return of real chunked calls over (values x labels x ALL chunkings x
   method x reindex x numpy/dask labels) is validated by TraceReduce.tla.
"""
from __future__ import annotations

from .. import gen, redcase
from . import shared

FUNCS = [
    "sum", "nansum", "prod", "nanprod", "mean", "nanmean", "var", "nanvar", "std", "nanstd",
    "max", "nanmax", "min", "nanmin", "argmax", "nanargmax", "argmin", "nanargmin",
    "nanfirst", "nanlast", "count",
]
BLOCKWISE_ONLY = ["first", "last"]
METHODS = [None, "map-reduce", "cohorts", "blockwise"]
REINDEX = [None, True, False]


def confined(codes, chunks):
    """every label lies within one chunk (precondition of method='blockwise')"""
    where = {}
    pos = 0
    for b, n in enumerate(chunks):
        for c in codes[pos : pos + n]:
            if c >= 0:
                where.setdefault(c, set()).add(b)
        pos += n
    return all(len(s) == 1 for s in where.values())


def build_case(vals, codes, chunks_i, func, method, reindex, by_dask, split_every, dtype="f8"):
    n = len(vals)
    if n == 10:
        chunks = [2] * 5
    else:
        comps = gen.compositions(n)
        chunks = comps[chunks_i % len(comps)]
    if method == "blockwise" and not confined(codes, chunks):
        return None
    if func in BLOCKWISE_ONLY and method != "blockwise":
        return None
    if by_dask and method == "cohorts":
        return None  # documented refusal
    kind = "float" if min(codes) < 0 else "int"
    c = {"func": func, "vals": vals, "dtype": dtype, "codes": codes, "label_kind": kind, "chunks": chunks,
         "ddof": 1 if func in redcase.VAR_FUNCS | redcase.STD_FUNCS else None, "split_every": split_every,
         "method": method, "reindex": reindex, "by_dask": by_dask}
    if by_dask:
        discover = method in (None, "map-reduce") and reindex is not True and (n + len(chunks)) % 2 == 0
        if not discover:
            present = sorted({x for x in codes if x >= 0})
            if not present:
                return None
            c["req"] = present
            c["fill"] = [-1, 1] if func in redcase.ARG_FUNCS else ([0, 1] if func == "count" else [0, 0])
    return c


def build_case15(vals, codes, chunks_i, func, method, reindex, by_dask, split_every):
    kind = "float" if min(codes) < 0 else "int"
    return {"func": func, "vals": vals, "dtype": "f8", "codes": codes, "label_kind": kind, "chunks": [3] * 5,
            "ddof": 1 if func in redcase.VAR_FUNCS | redcase.STD_FUNCS else None, "split_every": split_every,
            "method": method, "reindex": reindex, "by_dask": False}


def mk_space(name, alpha, n, patterns, funcs, full, dtype="f8", split_every=(None,)):
    return gen.Space(name, {
        "vals": gen.seqs(alpha, n), "codes": patterns, "chunks_i": range(2 ** (n - 1)), "func": funcs,
        "method": METHODS, "reindex": REINDEX if full else [None], "by_dask": [False, True] if full else [False],
        "split_every": split_every,
    }, lambda **kw: build_case(dtype=dtype, **kw))


def spaces(ctx):
    small = [gen.iv(-2), gen.iv(1), gen.NAN]
    pats = {2: [[0, 0], [1, 0]], 3: [[0, 1, 0], [1, 0, 0], [0, 0, 0], [0, -1, 0], [-1, -1, -1]]}
    core = [mk_space(f"core{n}", small, n, pats[n], FUNCS + BLOCKWISE_ONLY, full=False) for n in (2, 3)]
    rest = [
        mk_space("small3-full", small, 3, pats[3], FUNCS + BLOCKWISE_ONLY, full=True),
        mk_space("f8-4", gen.ALPHA_F8_FINITE, 4, gen.code_patterns(4), FUNCS, full=True, split_every=(None, 2)),
        mk_space("f8inf-5", [gen.iv(-2), gen.iv(0), gen.iv(3), gen.NAN, gen.PINF, gen.NINF], 5,
                 [[0, 1, 0, 1, 0], [1, 0, 0, 1, 1], [2, 0, 1, 0, 2], [0, -1, 0, 1, 1], [-1, -1, 0, 0, 1]], FUNCS, full=True, split_every=(2, 3)),
        mk_space("f8-6", [gen.iv(-1), gen.iv(2), gen.NAN], 6, gen.code_patterns(6), FUNCS, full=True, split_every=(2, 3, None)),
        # layouts on which the planner MERGES partially overlapping cohorts (5 chunks of 2)
        gen.Space("merge-10", {"vals": [[gen.iv(((3 * i + j) % 7) - 3) if (i + j) % 5 else gen.NAN for i in range(10)] for j in range(4)],
                               "codes": [[0, 0, 0, 1, 0, 1, 0, 1, 1, 1], [0, 1, 0, 1, 0, 2, 0, 2, 1, 2], [0, 0, 1, 0, 1, 0, 1, 2, 2, 2], [1, 0, 1, 0, 1, 0, 0, -1, 0, 2]],
                               "chunks_i": [0], "func": FUNCS, "method": [None, "cohorts"], "reindex": [None, False], "by_dask": [False],
                               "split_every": [None, 2]}, lambda **kw: build_case(**dict(kw, chunks_i=0))),
        # merged cohorts whose blocks hold MORE distinct labels (or the missing label) than the cohort has members and lack one
        # of its members: the per-cohort reindex of a block then selects fewer labels than the block found (5 chunks of 3)
        gen.Space("merge-15", {"vals": [[gen.iv(((5 * i + 2 * j) % 9) - 4) if (i + 2 * j) % 7 else gen.NAN for i in range(15)] for j in range(4)],
                               "codes": [[0, 1, 1, 0, 1, 0, 0, 1, 1, 0, 2, 3, 2, 3, 3], [0, 1, 1, 0, 1, 0, 0, 1, 1, 0, 2, -1, 2, 2, -1],
                                         [1, 0, 0, 1, 0, 1, 1, 0, 0, 1, 3, 2, 3, 2, 2], [2, 3, 3, 2, 3, 2, 2, 3, 3, 2, 0, 1, 0, 1, 1],
                                         [0, 2, 2, 0, 2, 0, 0, 2, 2, 0, 1, -1, 1, 1, 1]],
                               "chunks_i": [0], "func": FUNCS, "method": [None, "cohorts", "map-reduce"], "reindex": [None, False], "by_dask": [False],
                               "split_every": [None, 2]}, lambda **kw: build_case15(**kw)),
        mk_space("i8-4", gen.ALPHA_INT, 4, gen.code_patterns(4, with_missing=False),
                 ["sum", "prod", "mean", "var", "max", "min", "argmax", "nanargmin", "nanfirst", "nanlast", "count"], full=True, dtype="i8", split_every=(None, 2)),
        mk_space("bool-4", gen.ALPHA_BOOL, 4, gen.code_patterns(4, with_missing=False)[:3], ["any", "all", "sum", "count", "max"], full=True, dtype="b1"),
    ]
    return core, rest


def run(ctx):
    from . import models

    models.pipeline(ctx)
    core, rest = spaces(ctx)
    budget = 24_000 if ctx.tier == "quick" else 400_000
    cases = []
    for sp in core:
        cases += sp.all()
    per = max(200, (budget - len(cases)) // len(rest))
    for sp in rest:
        cases += sp.sample(ctx.rng, per)
    ctx.cov["space"] = {"core_sizes": {sp.name: sp.size for sp in core}, "rest_sizes": {sp.name: sp.size for sp in rest}, "visited": len(cases)}
    ctx.cov["exhaustive"] = False
    shared.run_reduce_and_validate(ctx, cases, tag="c02")
    from . import c08, compose, graphreplay

    # cohorts (explicit or chosen automatically) over N-D labels on an N-D chunk grid, every result slice against the 1-D reference
    c08.validate_axis_cases(ctx, c08.nd_cohort_cases(ctx.rng, 600 if ctx.tier == "quick" else 12000), "c02-nd")

    graphreplay.replay_graphs(ctx, prop="C02")
    # the composed specification (Flox.tla): exhaustive at small bounds, then its behaviours replayed into the code
    compose.model(ctx)
    compose.replay(ctx, {"compose:result"})
    ctx.cov["rule"] = (
        "cases = (values over an alphabet with negatives/NaN/+-inf, unsorted labels incl. missing, ALL chunkings of the axis, "
        "method in {None,map-reduce,cohorts,blockwise(if confined)}, reindex in {None,True,False}, numpy|dask labels, split_every); "
        "non-trivial = distinct case where some group has >=2 members or a special value")
    ctx.assumptions += [
        "values exactly representable; rounding outside the model",
        "method='blockwise' only exercised on inputs meeting its precondition (every label confined to one chunk)",
    ]


def replay(ctx, payload):
    return shared.replay_reduce(ctx, payload)
