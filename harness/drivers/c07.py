"""C07 — multi-variable grouping = tuple keys; binning = pandas.cut.

M  MC_Factorize: BinsLikeCut (np.digitize made to mimic pandas.cut on edges,
   interior, outside, NaN, +-inf; both closed sides; single edge), RavelOk (tuple
   code row-major and injective; any -1 gives -1), CodesPointAtSlots.
T  real groupby_reduce calls with 1-3 groupers of any mix of categorical and binned
   kinds (equal shapes and size-1 broadcasting), eager and chunked, numpy and dask
   labels, validated by TraceMulti.tla, which recomputes the tuple slot of every
   element from Ref!RefCut / the requested labels.  selftest cross-checks RefCut
   against real pandas.cut.
"""
from __future__ import annotations

import warnings

import numpy as np

from .. import gen, redcase, tlc
from ..common import MachineryFailure, harness_errors, pmap
from ..project import NAN, ProjectionError, pv, to_float
from . import models, shared

EDGES = [gen.iv(0), gen.iv(2), gen.iv(5)]
XVALS = [gen.iv(0), gen.iv(1), gen.iv(2), gen.iv(3), gen.iv(5), gen.iv(-1), gen.iv(6), gen.NAN, gen.PINF, gen.NINF]
CATREQ = [[0, 1], [1, 0, 2], [2], [0, 1, 2]]
FUNCS = ["sum", "nansum", "count", "nanmean", "max", "nanmin", "nanfirst", "argmax", "prod"]


def run_multi_case(case):
    import dask
    import dask.array as da
    import pandas as pd

    from flox.core import groupby_reduce

    warnings.filterwarnings("ignore")
    n = len(case["vals"])
    shape = tuple(case.get("shape2d") or (n,))
    array = redcase.concretize(case["vals"], "f8").reshape(shape)
    bys, exps, isbin = [], [], []
    for g in case["groupers"]:
        if g["kind"] == "cat":
            kind = g.get("label_kind", "float" if min(g["codes"]) < 0 else "int")
            b = redcase.label_array(g["codes"], kind)
            if g.get("found"):      # an in-memory grouper without expected_groups next to a chunked one
                exps.append(None)
            else:
                exps.append(np.array([redcase.LABELS[kind][t] for t in g["req"]], dtype=object if kind == "str" else None))
            isbin.append(False)
        else:
            b = np.array([to_float(v) for v in g["x"]], dtype=float)
            if g.get("xint"):
                b = b.astype(np.int64)          # integer labels binned by fractional edges
            e = [to_float(v) for v in g["edges"]]
            if g["right"] and not g.get("as_index"):
                exps.append(np.array(e))
                isbin.append(True)
            else:
                exps.append(pd.IntervalIndex.from_breaks(e, closed="right" if g["right"] else "left"))
                isbin.append(False)
        bshape = g.get("bshape") or shape
        bys.append(b.reshape(bshape))
    kw = dict(func=case["func"], expected_groups=tuple(exps), isbin=tuple(isbin))
    if case.get("fill") is not None:
        kw["fill_value"] = redcase.fill_concrete(case["fill"])
    for k in ("engine", "method", "reindex"):
        if case.get(k) is not None:
            kw[k] = case[k]
    out = dict(case)
    try:
        if case.get("chunks") is not None:
            ch = tuple(tuple(c) for c in case["chunks"])
            arr = da.from_array(array, chunks=ch)
            bys2 = []
            for b, g in zip(bys, case["groupers"]):
                if case.get("by_dask") is True or (case.get("by_dask") == "mixed" and not g.get("found")):
                    bch = tuple(ch[ax] if b.shape[ax] != 1 else (1,) for ax in range(array.ndim))
                    bys2.append(da.from_array(b, chunks=bch))
                else:
                    bys2.append(b)
            res = groupby_reduce(arr, *bys2, **kw)
            out["lazy"] = hasattr(res[0], "dask")
            res = dask.compute(*res, scheduler="synchronous")
        else:
            res = groupby_reduce(array, *bys, **kw)
        r = np.asarray(res[0])
        out["shape"] = list(r.shape)
        out["out"] = [redcase.pv_out(x, 1e-9) for x in r.reshape(-1)]
        out["ngroups_returned"] = [len(g) for g in res[1:]]
    except ProjectionError as e:
        out.update(exc="ProjectionError", msg=str(e))
    except Exception as e:  # noqa: BLE001
        out.update(exc=type(e).__name__, msg=str(e)[:200])
    return out


def mk_grouper(kind, n, sel, rng_i):
    if kind == "cat":
        pats = {4: [[0, 1, 0, 1], [1, 0, 2, 1], [0, -1, 1, 0], [2, 2, 0, 1]], 6: [[0, 1, 0, 1, 2, 2], [1, 0, 2, 1, -1, 0], [2, 2, 0, 1, 1, 0]]}
        codes = pats[n][sel % len(pats[n])]
        return {"kind": "cat", "codes": codes, "req": CATREQ[rng_i % len(CATREQ)]}
    if (sel + rng_i) % 3 == 0:
        # integer labels, edges at half-integers (also negative): an edge truncated to the label dtype would move members
        xi = [gen.iv(((2 * sel + 3 * i * (rng_i + 1)) % 7) - 2) for i in range(n)]
        return {"kind": "bin", "x": xi, "xint": True, "edges": [[-3, 2], [1, 2], [3, 2], [5, 2], [7, 2]][(rng_i % 2):], "right": kind == "binR", "as_index": True}
    x = [XVALS[(sel * 3 + i * (rng_i + 1)) % len(XVALS)] for i in range(n)]
    return {"kind": "bin", "x": x, "edges": EDGES if rng_i % 3 else [gen.iv(0), gen.iv(1), gen.iv(3), gen.iv(5)], "right": kind == "binR",
            "as_index": rng_i % 2 == 0}


def build(n, vsel, kinds, gsel, func, fillsel, mode, engine):
    alpha = [gen.iv(-2), gen.iv(1), gen.NAN, gen.iv(3), gen.iv(0), gen.iv(7)]
    vals = [alpha[(vsel + 2 * i) % len(alpha)] for i in range(n)]
    groupers = [mk_grouper(k, n, gsel + 3 * j, gsel // 2 + j) for j, k in enumerate(kinds)]
    if engine == "flox" and func in redcase.ARG_FUNCS:
        return None
    c = {"func": func, "vals": vals, "groupers": groupers, "fill": [[0, 0], [-1, 1], [0, 1]][fillsel], "engine": engine, "min_count": None}
    if func in redcase.ARG_FUNCS:
        c["fill"] = [-1, 1]
    if mode == "eager":
        return c
    layout, method, by_dask = mode
    if layout == "2d":
        if n != 6:
            return None
        c["shape2d"] = [2, 3]
        if len(groupers) >= 2 and groupers[1]["kind"] != "cat" or len(groupers) >= 2:
            # second grouper varies only along the last axis: size-1 broadcasting
            g = groupers[1]
            key = "codes" if g["kind"] == "cat" else "x"
            g[key] = g[key][:3]
            g["bshape"] = [1, 3]
            # the broadcast labels seen by the specification
            g["bcast"] = True
        c["chunks"] = [[1, 1], [2, 1]] if method != "eager2d" else None
    else:
        comps = gen.compositions(n)
        c["chunks"] = [comps[(gsel * 5 + vsel) % len(comps)]]
    if func in redcase.ARG_FUNCS and layout == "2d":
        return None   # arg-reductions over two axes: refused for chunked input, index convention unspecified
    if method == "eager2d":
        c["chunks"] = None
        return c
    c["method"] = method
    c["by_dask"] = by_dask
    if by_dask == "mixed":
        if len(groupers) < 2 or groupers[-1]["kind"] != "cat" or groupers[-1].get("bcast"):
            return None
        groupers[-1]["found"] = True
    if by_dask and method == "cohorts":
        return None
    return c


def to_line(rec, rid):
    groupers = []
    n = len(rec["vals"])
    for g in rec["groupers"]:
        g2 = {"kind": g["kind"]}
        if g["kind"] == "cat":
            codes = g["codes"]
            if g.get("bcast"):
                codes = codes * (n // len(codes))
            # sort=True (default): slots in ascending label order (C16); without expected_groups: the labels present
            g2.update(codes=codes, req=sorted({c for c in codes if c >= 0}) if g.get("found") else sorted(g["req"]))
        else:
            x = g["x"]
            if g.get("bcast"):
                x = x * (n // len(x))
            g2.update(x=x, edges=g["edges"], right=g["right"])
        groupers.append(g2)
    fill = rec.get("fill")
    return {"id": rid, "func": rec["func"], "vals": rec["vals"], "groupers": groupers,
            "fill": {"some": fill is not None, "v": fill if fill is not None else NAN}, "min_count": -1, "ddof": 0,
            "out": rec["out"], "shape": rec["shape"]}


def run(ctx):
    models.factorize(ctx)
    kindsets = [("cat",), ("binR",), ("binL",), ("cat", "cat"), ("cat", "binR"), ("binL", "cat"), ("binR", "binL"), ("cat", "cat", "binR"), ("binL", "cat", "cat")]
    modes = ["eager", ("1d", None, False), ("1d", "map-reduce", False), ("1d", "map-reduce", True), ("1d", "map-reduce", "mixed"), ("1d", None, "mixed"), ("1d", "cohorts", False), ("2d", "eager2d", False),
             ("2d", "map-reduce", False), ("2d", None, True)]
    sp = gen.Space("multi", {"n": [4, 6], "vsel": range(6), "kinds": kindsets, "gsel": range(12), "func": FUNCS, "fillsel": range(3), "mode": modes,
                             "engine": [None, "numpy", "flox"]}, build)
    budget = 8000 if ctx.tier == "quick" else 200000
    cases = sp.sample(ctx.rng, budget)
    ctx.cov["space"] = {"multi": sp.size}
    recs = pmap("harness.drivers.c07", "run_multi_case", cases)
    errs = harness_errors(recs)
    if errs:
        raise MachineryFailure(f"{len(errs)} harness errors, first: {errs[0]['_harness_error']}\n{errs[0].get('_tb','')}")
    lines, owner = [], {}
    for rec in recs:
        ctx.cov["evaluations"] += 1
        if "exc" in rec:
            if rec["exc"] == "ProjectionError":
                raise MachineryFailure(f"projection: {rec['msg']}")
            if rec["exc"] in redcase.CLEAN_REFUSALS:
                ctx.cov["refused_cleanly"] = ctx.cov.get("refused_cleanly", 0) + 1
                continue
            ctx.violation(rec, f"exception:{rec['exc']}", rec["msg"])
            continue
        line = to_line(rec, len(lines))
        owner[line["id"]] = rec
        lines.append(line)
        ctx.nontrivial(str([rec["func"], rec["groupers"], rec.get("chunks"), rec.get("method"), rec.get("by_dask")]))
    if not lines:
        raise MachineryFailure("no call produced a result")
    ctrl = dict(lines[0], id=-7, out=[[v[0] + 3 * max(v[1], 1), max(v[1], 1)] for v in lines[0]["out"]])
    fails, stats = tlc.validate_trace("TraceMulti", lines + [ctrl], tag="c07", shards=8)
    seen = False
    for f in fails:
        if f[1] == -7:
            seen = True
            continue
        rec = owner[f[1]]
        ctx.violation(rec, "+".join(sorted(f[2])), {"expected": f[3], "got": rec["out"], "shape": rec["shape"]})
    if not seen:
        raise MachineryFailure("binding control: corrupted multi-grouper record accepted")
    ctx.add_traces(len(lines), stats, name="TraceMulti")
    from . import compose

    # Flox.tla behaviours with TWO groupers (labels found or requested unsorted, every strategy / reindex setting): the label
    # grid and every cell as the composed specification (Factorize!RavelFactorized + the strategies of Aggs.tla) says
    compose.replay(ctx, {"compose:result", "compose:labels"}, n=1200 if ctx.tier == "quick" else 30000, only=lambda b: bool(b["cfg"].get("two")))
    ctx.sample(lines[0])
    ctx.sample(lines[len(lines) // 2])
    ctx.cov["rule"] = ("(1-3 groupers, each categorical (requested label sets incl. unsorted/subset) or binned (edges {0,2,5} / {0,1,3,5}, closed right or left, as bin "
                       "edges or IntervalIndex; x on edges, interior, outside, NaN, +-inf), equal shapes or size-1 broadcasting, 9 reductions, eager | chunked "
                       "(1-D all chunkings, 2-D grid) x method x numpy|dask labels); non-trivial = distinct configuration")
    ctx.assumptions += ["Ref!RefCut is cross-checked against real pandas.cut by harness/selftest.py"]


def replay(ctx, payload):
    case = {k: v for k, v in payload["case"].items() if k not in ("out", "shape", "exc", "msg", "lazy", "ngroups_returned")}
    print(run_multi_case(case))
    return 0
