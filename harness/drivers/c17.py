"""C17 — rechunking helpers keep the data and establish their alignment
postconditions.

M  MC_Rechunk: the transcribed _get_optimal_chunks_for_groups and the division loop
   of rechunk_for_cohorts satisfy the postconditions for all label sequences up to
   6|8 over 3 labels with all chunkings, all forced-label sets, chunksize hints and
   ignore_old_chunks.
T  the REAL helpers (array and xarray flavours) on the same space and on longer
   runs / periodic patterns: every call validated by TraceRechunk.tla (postconditions,
   data preserved, drift vs the transcription); then method='blockwise' on the
   rechunked / automatically rechunked array against Ref (TraceReduce.tla).
"""
from __future__ import annotations

import itertools
import warnings

import numpy as np

from .. import gen, redcase, tlc
from ..common import MachineryFailure, harness_errors, pmap
from . import shared


def run_rechunk_case(case):
    import dask.array as da
    import xarray as xr

    import flox.xarray as fx
    from flox import core

    warnings.filterwarnings("ignore")
    labels = np.array(case["labels"])
    n = len(labels)
    rng = np.random.default_rng(case.get("vseed", 0))
    base = rng.integers(-5, 6, size=(2, n)).astype(case.get("dtype", "f8"))
    arr = da.from_array(base, chunks=((1, 1), tuple(case["chunks"])))
    out = dict(case)
    try:
        if case["flavour"] == "array":
            if case["kind"] == "blockwise":
                new = core.rechunk_for_blockwise(arr, axis=-1, labels=labels)
            else:
                new = core.rechunk_for_cohorts(arr, axis=-1, labels=labels, force_new_chunk_at=case["force"], chunksize=case["chunksize"],
                                               ignore_old_chunks=case["ignore"])
            newarr = new
        else:
            obj = xr.DataArray(arr, dims=("b", "x"), name="v")
            if case["flavour"] == "dataset":
                # chunked variables before and after an in-memory one (and one without the dimension): every chunked variable
                # with the dimension must be rechunked, whatever the order of the data variables
                obj = xr.Dataset({"u": obj + 1, "m": (("b", "x"), base.copy()), "v": obj, "w": obj * 2, "s": ("b", np.arange(2))})
            lab = xr.DataArray(labels, dims="x")
            before = obj.copy(deep=True)
            if case["kind"] == "blockwise":
                new = fx.rechunk_for_blockwise(obj, "x", lab)
            else:
                new = fx.rechunk_for_cohorts(obj, "x", lab, force_new_chunk_at=case["force"], chunksize=case["chunksize"], ignore_old_chunks=case["ignore"])
            newarr = (new["v"] if case["flavour"] == "dataset" else new).data
            # the argument must not have been modified (C14) and non-chunked variables pass through
            same_arg = (obj["v"] if case["flavour"] == "dataset" else obj).chunks == (before["v"] if case["flavour"] == "dataset" else before).chunks
            out["arg_untouched"] = bool(same_arg)
        out["new"] = [int(c) for c in newarr.chunks[-1]]
        if case["flavour"] == "dataset":
            others = {k: [int(c) for c in new[k].data.chunks[-1]] for k in ("u", "w")}
            if any(v != out["new"] for v in others.values()):
                out.update(exc="DatasetVariablesRechunkedDifferently", msg=f"v: {out['new']} others: {others}")
                return out
            if hasattr(new["m"].data, "dask") or not np.array_equal(new["m"].values, base):
                out.update(exc="InMemoryVariableChanged", msg="the in-memory variable of the Dataset did not pass through unchanged")
                return out
        vals_same = bool(np.array_equal(np.asarray(newarr), base))
        out["data_ok"] = bool(vals_same and newarr.shape == base.shape and newarr.dtype == base.dtype and newarr.chunks[0] == (1, 1)
                              and out.get("arg_untouched", True))
    except Exception as e:  # noqa: BLE001
        out.update(exc=type(e).__name__, msg=str(e)[:200])
    return out


def chunkings(n, limit=None):
    comps = gen.compositions(n)
    return comps if limit is None else comps[:: max(1, len(comps) // limit)]


def run(ctx):
    q = ctx.tier == "quick"
    mlen = 6 if q else 8
    cfg = f"SPECIFICATION Spec\nCHECK_DEADLOCK FALSE\nCONSTANTS MaxLen = {mlen}\nNLab = 3\nINVARIANT BlockwiseOk\nINVARIANT BlockwiseValid\nINVARIANT CohortsOk\n"
    res = shared.run_model(ctx, "MC_Rechunk", cfg, name="MC_Rechunk", constants=f"MaxLen={mlen}, NLab=3", timeout=3000, coverage=True, must_cover=("Grow",))
    if res.violated:
        raise MachineryFailure(f"MC_Rechunk: {res.violated} violated on the transcription: {res.error_trace[-1:]}")
    cases = []
    # blockwise helper: all sorted runs (as compositions of n into run lengths) x all chunkings
    for n in range(1, (8 if q else 10) + 1):
        for runs in gen.compositions(n):
            labels = [g for g, r in enumerate(runs) for _ in range(r)]
            for ch in chunkings(n, None if n <= 7 else 40):
                cases.append({"kind": "blockwise", "flavour": "array", "labels": labels, "chunks": ch})
    bw = len(cases)
    if q and bw > 9000:
        cases = gen.pick(ctx.rng, cases, 9000)
    # non-sequential labels: must still give valid chunks and keep the data
    for labels in ([0, 1, 0, 1, 2, 2], [2, 1, 0, 2, 1, 0], [0, 0, 1, 0, 0, 1, 1], [1, 0, 1, 0, 1, 0, 1, 0]):
        for ch in chunkings(len(labels), 12):
            cases.append({"kind": "blockwise", "flavour": "array", "labels": labels, "chunks": ch})
    # xarray flavours
    for labels, ch in (([0, 0, 0, 1, 1, 2, 2, 2], [3, 3, 2]), ([0, 1, 1, 1, 2, 2], [2, 2, 2]), ([0, 0, 1, 1], [1, 3])):
        for fl in ("dataarray", "dataset"):
            cases.append({"kind": "blockwise", "flavour": fl, "labels": labels, "chunks": ch})
    # cohorts helper: periodic and irregular patterns x forced sets x chunksize x ignore
    pats = [[0, 1, 2, 0, 1, 2, 3, 0, 1, 2], [0, 1, 0, 1, 0, 1, 0, 1], [0, 0, 1, 2, 0, 1, 1, 2, 0], [2, 1, 0, 2, 1, 0, 0, 1, 2, 2, 1], [1, 1, 1, 0, 1, 1, 0, 1], [0, 1, 2, 3, 4, 5, 0, 1, 2, 3, 4, 5]]
    for labels in pats:
        present = sorted(set(labels))
        forces = [[p] for p in present] + [present[:2], [present[0], 99]]
        for force in forces:
            for cs in (1, 2, 3, 4, 6):
                for ign in (False, True):
                    for ch in chunkings(len(labels), 6 if q else 40):
                        for fl in (("array",) if q else ("array", "dataarray")):
                            cases.append({"kind": "cohorts", "flavour": fl, "labels": labels, "chunks": ch, "force": force, "chunksize": cs, "ignore": ign})
    cases.append({"kind": "cohorts", "flavour": "dataset", "labels": pats[0], "chunks": [5, 5], "force": [0], "chunksize": 3, "ignore": False})
    ctx.cov["space"] = {"blockwise_sorted_runs_x_chunkings": bw, "visited": len(cases)}
    recs = pmap("harness.drivers.c17", "run_rechunk_case", cases)
    errs = harness_errors(recs)
    if errs:
        raise MachineryFailure(f"{len(errs)} harness errors, first: {errs[0]['_harness_error']}\n{errs[0].get('_tb','')}")
    lines, owner = [], {}
    for rec in recs:
        ctx.cov["evaluations"] += 1
        if "exc" in rec:
            if rec["exc"] == "ValueError" and rec["kind"] == "cohorts":
                ctx.cov["refused_cleanly"] = ctx.cov.get("refused_cleanly", 0) + 1
                continue
            ctx.violation(rec, f"exception:{rec['exc']}", rec["msg"])
            continue
        line = {"id": len(lines), "kind": rec["kind"], "labels": rec["labels"], "chunks": rec["chunks"], "new": rec["new"], "data_ok": rec["data_ok"],
                "force": rec.get("force", []), "chunksize": rec.get("chunksize", 1), "ignore": rec.get("ignore", False)}
        owner[line["id"]] = rec
        lines.append(line)
        if rec["new"] != rec["chunks"]:
            ctx.nontrivial(str([rec["kind"], rec["labels"], rec["chunks"], rec.get("force"), rec.get("chunksize"), rec.get("ignore")]))
    ctrl = {"id": -7, "kind": "blockwise", "labels": [0, 0, 1, 1], "chunks": [3, 1], "new": [3, 1], "data_ok": True, "force": [], "chunksize": 1, "ignore": False}
    fails, stats = tlc.validate_trace("TraceRechunk", lines + [ctrl], tag="c17", shards=8)
    seen = False
    for f in fails:
        if f[1] == -7:
            seen = "post" in f[2]
            continue
        rec = owner[f[1]]
        if "post" in f[2] or "data" in f[2]:
            ctx.violation(rec, "rechunk:" + "+".join(sorted(set(f[2]) - {"drift"})), None)
        else:
            ctx.drift.append(f"helper differs from Rechunk.tla: {rec['kind']} labels={rec['labels']} chunks={rec['chunks']} -> {rec['new']}")
    if not seen:
        raise MachineryFailure("TraceRechunk control (group straddling a boundary) was accepted")
    ctx.add_traces(len(lines), stats, name="TraceRechunk")
    ctx.sample(lines[len(lines) // 2])
    # method='blockwise' on 1-D sorted labels relies on the automatic rechunk
    bcases = []
    for n in (5, 6, 7):
        for runs in gen.compositions(n)[:: 2]:
            codes = [g for g, r in enumerate(runs) for _ in range(r)]
            if max(codes) > 5:
                continue
            for ch in chunkings(n, 8):
                for func in ("sum", "nanmax", "first", "count", "nanmean"):
                    bcases.append({"func": func, "vals": [gen.iv((3 * i) % 7 - 3) if i % 5 != 4 else gen.NAN for i in range(n)], "dtype": "f8", "codes": codes,
                                   "label_kind": "int", "chunks": ch, "method": "blockwise"})
    bcases = gen.pick(ctx.rng, bcases, 1500 if q else 20000)
    shared.run_reduce_and_validate(ctx, bcases, tag="c17-blockwise")
    ctx.cov["rule"] = ("blockwise helper: ALL sorted runs of length <= 8|10 x all chunkings (+ non-sequential labels, xarray flavours); cohorts helper: 6 periodic/irregular "
                       "patterns x forced sets x chunksize {1,2,3,4,6} x ignore_old_chunks x chunkings; then method='blockwise' on sorted labels under arbitrary chunking; "
                       "non-trivial = call that actually changed the chunks")
    ctx.assumptions += ["'sequential labels' = non-decreasing runs (the docstring's resample case); for other labels only validity and data preservation are required"]


def replay(ctx, payload):
    case = {k: v for k, v in payload["case"].items() if k in ("kind", "flavour", "labels", "chunks", "force", "chunksize", "ignore")}
    print(run_rechunk_case(case))
    return 0
