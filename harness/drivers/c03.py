"""C03 — result independent of reduction-tree shape, task order and scheduler.

M  (i)  MC_Laws!Bracket on the live registry: combine is insensitive to bracketing;
   (ii) MC_Tree: both tree builders are well formed for all (nblocks, split_every),
        incl. the ExtraLevel deviation;
   (iii) Exec.tla instantiated with REAL graphs (JSON export): Confluence under all
        interleavings of RunTask with Lose/re-execution (exhaustive for small
        graphs, -simulate beyond).
R  (a) the real graphs' trees are validated against Tree.tla (TraceTree.tla);
   (b) TLC-generated schedules (incl. Lose/Rerun) are executed on the real graph by
       harness/sched.py; every task's output digest must be identical across
       schedules;  (c) the threaded scheduler must reproduce the synchronous result.
T  final results for every split_every are validated by TraceReduce.tla (= Ref,
   hence equal to each other).
"""
from __future__ import annotations

from .. import gen, redcase, tlc
from ..common import MachineryFailure, harness_errors, pmap
from . import models, shared

FUNCS = ["sum", "nansum", "nanmean", "var", "nanstd", "max", "nanmin", "argmax", "nanargmin", "nanfirst", "nanlast", "count", "prod"]


def build(nblocks, split_every, func, method, pattern, dtype_i):
    if split_every > max(2, nblocks):
        return None
    # one element per label per block (+ a NaN) so every block holds every group (single cohort, deep tree)
    base = {"mono": [0, 1], "one": [0, 0], "alt": [1, 0]}[pattern]
    vals, codes, chunks = [], [], []
    for b in range(nblocks):
        for j, c in enumerate(base):
            v = gen.iv(((b * 3 + j * 5) % 7) - 3) if (b + j) % 4 != 3 else gen.NAN
            vals.append(v)
            codes.append(c)
        chunks.append(len(base))
    if func in redcase.ARG_FUNCS and any(v == gen.NAN for v in vals) and not func.startswith("nan"):
        vals = [gen.iv(0) if v == gen.NAN else v for v in vals]
    return {"func": func, "vals": vals, "dtype": "f8", "codes": codes, "label_kind": "int", "chunks": chunks, "method": method,
            "split_every": split_every, "ddof": 1 if func in redcase.VAR_FUNCS | redcase.STD_FUNCS else None}


def run(ctx):
    models.laws(ctx, which=("Bracket",))
    nmax = 12 if ctx.tier == "quick" else 24
    cfg = f"SPECIFICATION Spec\nCHECK_DEADLOCK FALSE\nCONSTANTS MaxN = {nmax}\nMaxK = {nmax}\nINVARIANT TreeWellFormed\nINVARIANT RootIsSingle\nINVARIANT AgreesWithClosedForm\n"
    res = shared.run_model(ctx, "MC_Tree", cfg, name="MC_Tree", constants=f"MaxN=MaxK={nmax}", coverage=True, must_cover=("Reduce",))
    if res.violated:
        raise MachineryFailure(f"MC_Tree: {res.violated} violated: {res.error_trace[-1:]}")
    sp = gen.Space("trees", {"nblocks": range(1, 9 if ctx.tier == "quick" else 17), "split_every": [2, 3, 4, 5, 8], "func": FUNCS,
                             "method": ["map-reduce", "cohorts"], "pattern": ["mono", "one", "alt"], "dtype_i": [0]}, build)
    ncases = 60 if ctx.tier == "quick" else 1200
    cases = sp.sample(ctx.rng, ncases)
    # all (nblocks, split_every) pairs at least once for the tree conformance
    for nb in range(1, 9 if ctx.tier == "quick" else 21):
        for se in (2, 3, 4):
            for method in ("map-reduce", "cohorts"):
                c = build(nb, se, "nansum", method, "mono", 0)
                if c:
                    c["nsched"] = 2
                    c["nthreaded"] = 1
                    cases.append(c)
    # many blocks with partially overlapping labels (merged cohorts)
    for sd in range(6 if ctx.tier == "quick" else 60):
        codes, chunks = gen.overlap_layout(sd)
        vals = [gen.iv((i * 5) % 7 - 3) if i % 5 != 2 else gen.NAN for i in range(len(codes))]
        for func in ("nansum", "nanlast", "nanargmax"):
            cases.append({"func": func, "vals": vals, "dtype": "f8", "codes": codes, "label_kind": "int", "chunks": chunks, "method": "cohorts",
                          "split_every": 2 if sd % 2 else None, "ddof": None, "nsched": 2, "nthreaded": 1})
    # grouped scans: the Blelloch prefix tree under TLC-generated schedules
    for f in ("nancumsum", "ffill", "bfill"):
        for nb in ((5, 8) if ctx.tier == "quick" else (3, 5, 8, 13)):
            codes = [(i * 2 + i // 3) % 3 for i in range(nb * 2)]
            vals = [gen.iv((i * 5) % 7 - 3) if i % 4 != 2 else gen.NAN for i in range(nb * 2)]
            cases.append({"scan": True, "func": f, "vals": vals, "dtype": "f8", "codes": codes, "chunks": [2] * nb, "nsched": 10 if ctx.tier == "quick" else 30})
    for i, c in enumerate(cases):
        c["order_seed"] = (ctx.seed * 101 + i) % 9973
        c.setdefault("nsched", 6 if ctx.tier == "quick" else 20)
        c["exhaustive_upto"] = 10 if ctx.tier == "quick" else 14
    ctx.cov["space"] = {"sampled_space": sp.size, "visited": len(cases)}
    recs = pmap("harness.schedcase", "run_sched_case", cases, nproc=8)
    errs = harness_errors(recs)
    if errs:
        raise MachineryFailure(f"{len(errs)} harness errors, first: {errs[0]['_harness_error']}\n{errs[0].get('_tb','')}")
    lines, by_id, trees, tree_owner = [], {}, [], {}
    scan_lines, scan_owner = [], {}
    nsched = 0
    for rec in recs:
        case = rec["case"]
        ctx.cov["evaluations"] += 1
        if "exc" in rec:
            if rec["exc"] == "ProjectionError":
                raise MachineryFailure(f"projection: {rec['msg']}")
            if rec["exc"] in redcase.CLEAN_REFUSALS and rec.get("phase") == "call":
                ctx.cov["refused_cleanly"] = ctx.cov.get("refused_cleanly", 0) + 1
                continue
            ctx.violation({**case, "exc": rec["exc"], "msg": rec.get("msg")}, f"exception:{rec['exc']}", rec.get("tb"))
            continue
        if rec.get("notlazy"):
            continue
        for which in ("exhaustive", "simulate"):
            t = rec["tlc"].get(which) or {}
            if t.get("error"):
                raise MachineryFailure(f"Exec.tla run failed on a real graph: {t['error']}")
            if t:
                ctx.cov["states"] += t.get("states", 0)
                ctx.cov["transitions"] += t.get("generated", 0)
                if t.get("violated"):
                    ctx.violation(case, f"graph:{t['violated']}", "TLC on the exported real graph")
        ctx.cov["exec_models"] = ctx.cov.get("exec_models", 0) + 1
        if rec["tlc"].get("exhaustive", {}).get("states"):
            ctx.cov["exec_exhaustive"] = ctx.cov.get("exec_exhaustive", 0) + 1
        nsched += rec["schedules_replayed"]
        if rec["schedules_replayed"] == 0 and not any((rec["tlc"].get(w) or {}).get("violated") for w in ("exhaustive", "simulate")):
            raise MachineryFailure(f"no schedule came out of TLC for {case}")
        if rec["digest_mismatches"]:
            ctx.violation(case, "schedule-dependent-task-output", rec["digest_mismatches"])
        if rec["distinct_finals"] != 1:
            ctx.violation(case, "schedule-dependent-result", rec["distinct_finals"])
        if not rec["threaded_equal"]:
            ctx.violation(case, "threaded-differs-from-synchronous", None)
        for t in rec["trees"]:
            t = dict(t, id=len(trees))
            tree_owner[t["id"]] = case
            trees.append(t)
        if case.get("scan"):
            scan_lines.append({"id": len(scan_lines), "kind": "return", "func": case["func"], "vals": case["vals"], "codes": case["codes"], "out": rec["scan_out"]})
            scan_owner[len(scan_lines) - 1] = case
            ctx.nontrivial((case["func"], "scan", len(case["chunks"])))
            continue
        r = dict(case)
        r["groups"], r["out"] = rec["groups"], rec["out"]
        by_id[len(lines)] = r
        lines.append(redcase.tlc_record(r, len(lines)))
        ctx.nontrivial((case["func"], case["method"], len(case["chunks"]), case["split_every"]))
    ctx.cov["replayed_behaviours"] += nsched
    ctx.cov["schedules_replayed"] = nsched
    if not lines:
        raise MachineryFailure("no graph was executed")
    fails, stats = tlc.validate_trace("TraceReduce", lines, tag="c03-final", shards=4)
    for f in fails:
        ctx.violation(by_id[f[1]], "final:" + "+".join(sorted(f[2])), {"expected": f[3], "got": by_id[f[1]]["out"]})
    ctx.add_traces(len(lines), stats, name="TraceReduce(final per split_every)")
    if scan_lines:
        fails, stats = tlc.validate_trace("TraceScan", scan_lines, tag="c03-scan", shards=1)
        for f in fails:
            ctx.violation(scan_owner[f[1]], "scan-final:" + "+".join(sorted(f[2])), None)
        ctx.add_traces(len(scan_lines), stats, name="TraceScan(final)")
    # tree conformance (+ control: a tree with two leaves swapped must be rejected)
    ctrl = {"id": -7, "n": 3, "k": 2, "levels": [[[2, 1], [3]], [[2, 1, 3]]]}
    fails, stats = tlc.validate_trace("TraceTree", trees + [ctrl], tag="c03-tree", shards=2)
    seen = False
    for f in fails:
        if f[1] == -7:
            seen = "tree-leaves" in f[2]
            continue
        if "tree-leaves" in f[2]:
            ctx.violation(tree_owner[f[1]], "tree-leaves-not-once-in-order", {"predicted": f[3], "observed": trees[f[1]]})
        else:
            ctx.drift.append(f"tree shape differs from Tree.tla for n={trees[f[1]]['n']} k={trees[f[1]]['k']}: {trees[f[1]]['levels']}")
    if not seen:
        raise MachineryFailure("TraceTree control (swapped leaves) was accepted")
    ctx.add_traces(len(trees), stats, name="TraceTree")
    ctx.sample({"graph": {k: recs[0]["case"].get(k) for k in ("func", "method", "chunks", "split_every")}, "trees": recs[0].get("trees"), "tlc": recs[0].get("tlc")})
    ctx.sample({"final": lines[-1]})
    ctx.cov["rule"] = ("real graphs for (nblocks 1..8|16, split_every 2..8, 13 reductions, map-reduce|cohorts, 3 label patterns); per graph: "
                       "exhaustive Exec.tla when <= 10|14 tasks else simulation, 6|20 TLC schedules with Lose/Rerun replayed on the real graph, "
                       "threaded runs; non-trivial = distinct (func, method, nblocks, split_every)")
    ctx.assumptions += ["float non-associativity is outside the model: data are exact small integers",
                        "distributed schedulers are represented by the RunTask/Lose/re-execution model of Exec.tla"]


def replay(ctx, payload):
    from .. import schedcase

    case = {k: v for k, v in payload["case"].items() if k not in ("groups", "out", "exc", "msg")}
    rec = schedcase.run_sched_case(case)
    print({k: v for k, v in rec.items() if k != "case"})
    bad = rec.get("exc") or rec.get("digest_mismatches") or rec.get("distinct_finals", 1) != 1 or not rec.get("threaded_equal", True)
    return 1 if bad else 0
