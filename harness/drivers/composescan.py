"""The composed scan specification spec/FloxScan.tla: one groupby_scan call as a state machine
(Validate -> pass-through | shortcut | eager | the cumreduction task graph in any order and
any bracketing -> Finalize), checked by TLC and replayed into the real flox.groupby_scan.

model(ctx)                 exhaustive TLC runs at small constants + vacuity witnesses
replay(ctx, clauses, ...)  TLC -simulate behaviours replayed into flox.groupby_scan; only the
                           clauses owned by the calling property become violations
"""
from __future__ import annotations

import copy
from concurrent.futures import ThreadPoolExecutor

from .. import common, scancompose
from ..common import MachineryFailure
from . import shared

WITNESSES = ("W_Chunked3", "W_Shortcut", "W_PassThrough", "W_ValueError", "W_Split")


def model(ctx):
    # (1) all three scans on float data, every chunking / task order / bracketing, no unsupported arguments
    n = 3 if ctx.tier == "quick" else 4
    c1 = dict(maxlen=n, nlabels=2, wide=False, dtypes=("f8",), arrdasks=(True, False), bydasks=(False,), argsets=("none",))
    res = shared.run_model(ctx, "FloxScan", scancompose.cfg_text(**c1) + scancompose.INVS, name=f"FloxScan[f8, MaxLen={n}]", constants=str(c1), timeout=3000, heap="12g")
    if res.violated:
        _confirm(ctx, res)
    # (2) the whole configuration product (dtypes, chunked labels, unsupported keyword arguments, +-inf) on shorter inputs
    c2 = dict(maxlen=2 if ctx.tier == "quick" else 3, nlabels=2, wide=True)
    res = shared.run_model(ctx, "FloxScan", scancompose.cfg_text(**c2) + scancompose.INVS, name=f"FloxScan[all cells, MaxLen={c2['maxlen']}]", constants=str(c2), timeout=3000, heap="12g")
    if res.violated:
        _confirm(ctx, res)
    # the model reproduces the second mechanism of known finding F12 (nan-last carried state): the unscoped invariant must fail
    cw = dict(maxlen=3, nlabels=1, wide=True, funcs=("nancumsum",), dtypes=("f8",), arrdasks=(True,), bydasks=(False,), argsets=("none",))
    r = shared.run_model(ctx, "FloxScan", scancompose.cfg_text(**cw) + "INVARIANT Inv_ScanResultAll\n", name="FloxScan(F12 witness: nancumsum, +-inf, unscoped invariant)", constants=str(cw), heap="8g")
    if r.violated != "Inv_ScanResultAll":
        ctx.drift.append("FloxScan.tla: the nan-last state no longer loses a NaN running sum in the model (known finding F12, second mechanism) — has Scan.tla changed?")
    c3 = dict(maxlen=3, nlabels=2, wide=False, dtypes=("f8", "i8"), arrdasks=(True,), bydasks=(False,), argsets=("none",))
    # the two deep witnesses (a finished three-block run, a range split in two ways) on a one-label, one-function instance
    c4 = dict(maxlen=3, minlen=3, nlabels=1, wide=False, funcs=("nancumsum",), dtypes=("f8",), arrdasks=(True,), bydasks=(False,), argsets=("none",))
    for w in WITNESSES:
        cw_ = c4 if w in ("W_Chunked3", "W_Split") else c3
        r = shared.run_model(ctx, "FloxScan", scancompose.cfg_text(**cw_) + f"INVARIANT {w}\n", name=f"FloxScan(vacuity witness {w})", constants="MaxLen=3", heap="8g")
        if r.violated != w:
            raise MachineryFailure(f"FloxScan.tla: witness {w} not reached — the composed scan model never exercises that path")


def _confirm(ctx, res):
    """an invariant violated in the design model is a statement about Scan.tla's transcription of the operators, not yet about
    the code: the final state is replayed into the real groupby_scan; only a disagreement of the real call with Ref!RefScan counts."""
    st = res.error_trace[-1] if res.error_trace else None
    if not st or "cfg" not in st or "func" not in st.get("cfg", {}) or st["cfg"]["func"] == "-":
        raise MachineryFailure(f"FloxScan.tla: {res.violated} violated, no usable counterexample state: {str(st)[:300]}")
    raise MachineryFailure(f"FloxScan.tla: {res.violated} violated in the design model at {str(st)[:600]} — the scan operators of Scan.tla "
                           "contradict Ref!RefScan; the task-level trace validation (TraceScan.tla) decides whether the code does too")


def _simulate_parallel(n, seed, configs):
    jobs = []
    for k, c in enumerate(configs):
        parts = c.pop("parts", 4)
        share = c.pop("share", 1.0)
        per = max(1, int(n * share) // parts)
        for i in range(parts):
            jobs.append((per, seed * 1000 + 37 * k + i + 1, dict(c, minlen=max(1, c["maxlen"] - (i % 3)))))
    with ThreadPoolExecutor(8) as ex:
        outs = list(ex.map(lambda j: scancompose.simulate(j[0], j[1], **j[2]), jobs))
    behs, states = [], 0
    for b, info in outs:
        if info["violated"]:
            raise MachineryFailure(f"FloxScan.tla (simulation): {info['violated']} violated at {str(info.get('state'))[:500]}")
        if not b:
            raise MachineryFailure(f"FloxScan.tla (simulation) produced no behaviour: {info['tail'][-600:]}")
        behs += b
        states += info["states"]
    return behs, states


def replay(ctx, clauses, *, n=None, report_others=True):
    if n is None:
        n = 2400 if ctx.tier == "quick" else 60_000
    big = 6 if ctx.tier == "quick" else 7
    configs = [
        # the scans proper: float data incl. +-inf, every chunking, missing labels
        dict(maxlen=big, nlabels=3, wide=True, dtypes=("f8",), arrdasks=(True, False), bydasks=(False,), argsets=("none",), share=0.5, parts=4),
        # integer / boolean data (nancumsum; fills pass through)
        dict(maxlen=5, nlabels=3, wide=False, dtypes=("i8", "b1"), arrdasks=(True, False), bydasks=(False,), argsets=("none",), share=0.25, parts=2),
        # the refusal cells
        dict(maxlen=4, nlabels=2, wide=False, share=0.15, parts=2),
        # short inputs with many labels: the single-member shortcut (and length-1 inputs with a missing label)
        dict(maxlen=3, nlabels=3, wide=True, dtypes=("f8", "i8"), arrdasks=(True, False), bydasks=(False,), argsets=("none",), share=0.1, parts=3),
    ]
    behs, states = _simulate_parallel(n, ctx.seed * 13 + 5, [dict(c) for c in configs])
    ctx.cov["states"] += states
    ctx.cov["transitions"] += states
    ctx.cov["models"].append({"model": "FloxScan.tla -simulate", "constants": str(configs), "behaviours": len(behs), "states_checked": states})
    _binding_control(behs)
    res = common.pmap("harness.scancompose", "run_scan_compose_case", behs)
    total = 0
    paths = {}
    for r in res:
        if "_harness_error" in r:
            raise MachineryFailure(f"scan compose replay: {r['_harness_error']}\n{r.get('_tb', '')}")
        if r.get("machinery"):
            raise MachineryFailure(f"scan compose replay: projection: {r['machinery']}")
        total += 1
        key = (r["spec"]["plan"]["kind"], r["spec"]["plan"].get("path"))
        paths[str(key)] = paths.get(str(key), 0) + 1
        if r.get("nontrivial"):
            ctx.nontrivial(("scan-compose", str(r["case"])))
        for clause, detail in r["fails"]:
            if clause in clauses:
                ctx.violation(dict(r["case"], compose_scan=True, spec=r["spec"]), clause, detail)
            elif report_others:
                ctx.drift.append(f"{clause} (owned by another property's check): {detail if isinstance(detail, str) else detail.get('msg')} case={r['case']}")
    if behs:
        ctx.sample({"scan_compose_behaviour": {k: behs[0][k] for k in ("vals", "labs", "cuts", "cfg", "plan", "out")}})
    ctx.cov["scan_compose_paths"] = paths
    ctx.cov["replayed_behaviours"] += total
    ctx.cov["traces_validated_against_impl"] += total
    return total


def _binding_control(behs):
    """a behaviour whose predicted value is corrupted must be rejected by the replay, and so must one whose refusal is turned into a return"""
    seen_val = seen_ref = False
    for b in behs:
        if not seen_val and b["plan"]["kind"] == "ok" and b["plan"]["path"] in ("eager", "chunked"):
            ks = [i for i, v in enumerate(b["out"]) if v[1] > 0 and b["labs"][i] >= 0]
            if ks:
                bad = copy.deepcopy(b)
                bad["out"][ks[0]] = [bad["out"][ks[0]][0] + 5 * bad["out"][ks[0]][1], bad["out"][ks[0]][1]]
                common._init_worker()
                r = scancompose.run_scan_compose_case(bad)
                if not any(cl == "scan:result" for cl, _ in r["fails"]):
                    raise MachineryFailure(f"scan compose binding control: a corrupted predicted value was accepted by the replay: {r}")
                seen_val = True
        if not seen_ref and b["plan"]["kind"] != "ok":
            bad = copy.deepcopy(b)
            bad["plan"] = {"kind": "ok", "path": "eager"}
            bad["out"] = [list(v) for v in bad["vals"]]
            common._init_worker()
            r = scancompose.run_scan_compose_case(bad)
            if not any(cl == "scan:refusal" for cl, _ in r["fails"]):
                raise MachineryFailure(f"scan compose binding control: a refusal turned into a return was accepted by the replay: {r}")
            seen_ref = True
        if seen_val and seen_ref:
            return
    raise MachineryFailure("scan compose binding control: no behaviour to corrupt")
