"""C09 — cohort planner sound; dependency closures right; members counted once.

M  MC_Cohorts: the transcribed find_group_cohorts (Cohorts.tla) satisfies the C09
   relation for ALL incidence matrices up to 4x4 | 5x4, both merge values and
   chunk-size classes; MC_Pipeline!InvLabels; Exec.tla CountedOnce / ClosureSound.
T  (i) the REAL planner on every matrix of the same space (1-D layouts; 2-D chunk
       grids in the thorough tier), validated by TraceCohorts.tla against the
       property relation (`sound`) and against the transcribed algorithm (`drift`,
       never an alarm);
   (ii) real graphs of every strategy exported to Exec.tla: CountedOnce and
       ClosureSound on the real dependency closures;
   (iii) provenance runs: element i carries 4^i, func=sum, so a dropped (digit 0)
       or double-counted (digit 2) member shows in the base-4 digits; validated by
       TraceReduce.tla.
"""
from __future__ import annotations

import itertools
import warnings

import numpy as np

from .. import gen, redcase, tlc
from ..common import MachineryFailure, harness_errors, pmap
from . import models, shared
from .c02 import confined


def run_planner_case(case):
    import pandas as pd

    from flox.core import find_group_cohorts

    warnings.filterwarnings("ignore")
    B, nl = case["B"], case["nl"]
    labels, chunks = [], []
    for row in B:
        row = list(row)
        if case.get("pad") and len(row) > 0:
            row = row + [row[-1]] * case["pad"]          # repeat a label: chunk sizes > 1 without changing the incidence
        if not row:
            row = [-1]
        labels += row
        chunks.append(len(row))
    single = all(c == 1 for c in chunks)
    out = dict(case, single=single)
    try:
        if case.get("grid"):
            # the same incidence on a 2-D chunk grid: blocks are laid out row-major over (g0, g1)
            g0, g1 = case["grid"]
            w = max(chunks)
            blocks = [[l for l in (list(r) or [-1])] + [-1] * 0 for r in B]
            rows = []
            for i in range(g0):
                rowblocks = []
                for j in range(g1):
                    b = list(B[i * g1 + j]) or [-1]
                    b = b + [b[-1]] * (w - len(b))
                    rowblocks.append(b)
                rows.append(np.concatenate([np.array(b)[None, :] for b in rowblocks], axis=1))
            lab = np.concatenate(rows, axis=0)
            ch = ((1,) * g0, (w,) * g1)
            out["single"] = w == 1
            method, cohorts = find_group_cohorts(lab, ch, expected_groups=pd.RangeIndex(nl), merge=case["merge"])
        else:
            method, cohorts = find_group_cohorts(np.array(labels), (tuple(chunks),), expected_groups=pd.RangeIndex(nl), merge=case["merge"])
        out["method"] = method
        out["cohorts"] = [{"chunks": [int(c) + 1 for c in k], "labels": [int(x) for x in v]} for k, v in cohorts.items()]
        out["failed"] = False
    except AssertionError:
        out.update(method="assert", cohorts=[], failed=True)
    except Exception as e:  # noqa: BLE001
        out.update(exc=type(e).__name__, msg=str(e)[:200])
    return out


def matrices(nchunks, nl):
    rows = [list(s) for r in range(nl + 1) for s in itertools.combinations(range(nl), r)]
    return itertools.product(rows, repeat=nchunks)


def run(ctx):
    q = ctx.tier == "quick"
    cfgs = [(4, 3), (3, 4)] if q else [(4, 4), (5, 4), (4, 5)]
    for mc, nl in cfgs:
        cfg = f"SPECIFICATION Spec\nCHECK_DEADLOCK FALSE\nCONSTANTS MaxChunks = {mc}\nNL = {nl}\nINVARIANT CohortsSound\nALIAS Dbg\n"
        res = shared.run_model(ctx, "MC_Cohorts", cfg, name=f"MC_Cohorts[{mc}x{nl}]", constants=f"MaxChunks={mc}, NL={nl}", timeout=3000)
        if res.violated:
            st = res.error_trace[-1] if res.error_trace else {}
            # design-level counterexample: confirm on the real planner
            B = st.get("B")
            real = [run_planner_case({"B": [sorted(r) for r in B], "nl": nl, "merge": m}) for m in (False, True)] if B else []
            ctx.violation({"B": B, "nl": nl, "real": real}, "design-counterexample:CohortsSound", str(st)[:800])
    models.cohort_pipeline(ctx)
    # (i) the real planner on the same space
    cases = []
    spaces = [(3, 3), (4, 3), (3, 4)] if q else [(4, 4), (5, 3), (3, 5)]
    for nch, nl in spaces:
        for B in matrices(nch, nl):
            for merge in (False, True):
                cases.append({"B": [list(r) for r in B], "nl": nl, "merge": merge})
    extra = []
    five = list(matrices(5, 2)) + (list(matrices(5, 3)) if not q else gen.pick(ctx.rng, list(matrices(5, 3)), 3000)) + gen.pick(ctx.rng, list(matrices(6, 2)), 2000)
    for B in five:
        for merge in (False, True):
            extra.append({"B": [list(r) for r in B], "nl": max([x for r in B for x in r] + [0]) + 1, "merge": merge})
    # larger incidences with interval structure (labels living in runs of neighbouring chunks, runs overlapping partially):
    # chains of containment >= 0.75 in which a label merged into an earlier cohort precedes a partially contained one
    def interval_incidence(nch, nl):
        B = [set() for _ in range(nch)]
        for lab in range(nl):
            for _ in range(1 if ctx.rng.random() < 0.7 else 2):
                ln = ctx.rng.choice([2, 2, 3, 4, 4, 5])
                st = ctx.rng.randrange(0, nch - 1)
                for c in range(st, min(nch, st + ln)):
                    B[c].add(lab)
        return [sorted(b) for b in B]

    for _ in range(4000 if q else 60000):
        nch, nl = ctx.rng.choice([(8, 5), (9, 5), (10, 6), (10, 5), (7, 6)])
        B = interval_incidence(nch, nl)
        for merge in (False, True):
            extra.append({"B": B, "nl": nl, "merge": merge})
    pads = [dict(c, pad=1) for c in gen.pick(ctx.rng, cases, 3000 if q else 30000)]
    grids = [dict(c, grid=[2, 2]) for c in cases if len(c["B"]) == 4][:: 3 if q else 1]
    allcases = cases + extra + pads + grids
    budget = 40000 if q else 600000
    if len(allcases) > budget:
        allcases = cases[: budget // 2] + gen.pick(ctx.rng, extra + pads + grids, budget // 2)
    ctx.cov["space"] = {"matrices_exhaustive": len(cases), "five_chunk": len(extra), "padded": len(pads), "grids_2x2": len(grids), "visited": len(allcases)}
    ctx.cov["exhaustive"] = len(allcases) == len(cases) + len(extra) + len(pads) + len(grids)
    recs = pmap("harness.drivers.c09", "run_planner_case", allcases)
    errs = harness_errors(recs)
    if errs:
        raise MachineryFailure(f"{len(errs)} harness errors, first: {errs[0]['_harness_error']}\n{errs[0].get('_tb','')}")
    lines, owner = [], {}
    for rec in recs:
        ctx.cov["evaluations"] += 1
        if "exc" in rec:
            ctx.violation(rec, f"exception:{rec['exc']}", rec["msg"])
            continue
        line = {"id": len(lines), "B": rec["B"], "nl": rec["nl"], "merge": rec["merge"], "single": rec["single"], "method": rec["method"],
                "cohorts": rec["cohorts"], "failed": rec["failed"]}
        owner[line["id"]] = rec
        lines.append(line)
        if len({tuple(r) for r in rec["B"]}) > 1:
            ctx.nontrivial((str(rec["B"]), rec["merge"], rec.get("pad"), str(rec.get("grid"))))
    # control: a cohort whose block set misses a block must be rejected
    ctrl = {"id": -7, "B": [[0], [0, 1], [1]], "nl": 2, "merge": True, "single": False, "method": "cohorts",
            "cohorts": [{"chunks": [1], "labels": [0]}, {"chunks": [2, 3], "labels": [1]}], "failed": False}
    fails, stats = tlc.validate_trace("TraceCohorts", lines + [ctrl], tag="c09", shards=12, timeout=1800)
    seen = False
    for f in fails:
        if f[1] == -7:
            seen = "sound" in f[2]
            continue
        rec = owner[f[1]]
        if "sound" in f[2]:
            ctx.violation(rec, "planner-unsound", {"model": f[3]})
        else:
            ctx.drift.append(f"planner differs from Cohorts.tla on B={rec['B']} merge={rec['merge']} pad={rec.get('pad')} grid={rec.get('grid')}: real={rec['method']},{rec['cohorts']}")
    if not seen:
        raise MachineryFailure("TraceCohorts control (cohort missing a block) was accepted")
    ctx.add_traces(len(lines), stats, name="TraceCohorts")
    ctx.sample(lines[len(lines) // 3])
    # (ii) real graphs: closures / counted once  (iii) provenance
    from .. import schedcase
    from . import c08

    # cohorts over N-D labels on an N-D chunk grid: every member counted for its own label (each result slice against the reference)
    c08.validate_axis_cases(ctx, c08.nd_cohort_cases(ctx.rng, 500 if q else 10000), "c09-nd")

    gcases, pcases = [], []
    layouts = [([0, 1, 0, 1, 2, 2, 0, 1], [2, 2, 2, 2]), ([0, 0, 1, 1, 2, 2, 3, 3], [2, 2, 2, 2]), ([0, 1, 2, 0, 1, 2, 0, 1], [3, 3, 2]),
               ([0, 0, 0, 1, 0, 1, 0, 1, 1, 1], [2, 2, 2, 2, 2]), ([3, 1, 0, 3, 1, 0, 3, 2, -1, 2], [2, 2, 2, 2, 2]), ([0, 1, 2, 3, 0, 1, 2, 3, 0, 1, 2, 3], [4, 4, 4]),
               ([0, 1, 1, 0, 2, 2, 2, 0, 1, 1, 2, 0], [1] * 12), ([0, 0, 1, 2, 1, 1, 2, 0, 0, 2, 1, 2, 0], [3, 2, 3, 2, 3])]
    for codes, chunks in layouts:
        vals = [gen.iv(4 ** i) for i in range(len(codes))]
        for method in (None, "map-reduce", "cohorts", "blockwise"):
            if method == "blockwise" and not confined(codes, chunks):
                continue
            for se in (2, None):
                kind = "float" if min(codes) < 0 else "int"
                c = {"func": "sum", "vals": vals, "dtype": "f8", "codes": codes, "label_kind": kind, "chunks": chunks, "method": method, "split_every": se}
                pcases.append(c)
                pcases.append(dict(c, func="count"))
                gcases.append(dict(c, nsched=1, nthreaded=0, exhaustive_upto=0))
    # provenance over all chunkings of short label runs
    for n in (5, 6, 7):
        for codes in gen.code_patterns(6 if n > 6 else n)[:5]:
            codes = (codes + codes)[:n]
            for chunks in gen.compositions(n)[:: 3 if q else 1]:
                for method in (None, "cohorts"):
                    pcases.append({"func": "sum", "vals": [gen.iv(4 ** i) for i in range(n)], "dtype": "f8", "codes": codes,
                                   "label_kind": "float" if min(codes) < 0 else "int", "chunks": chunks, "method": method, "split_every": 2})
    grecs = pmap("harness.schedcase", "run_sched_case", gcases, nproc=8)
    errs = harness_errors(grecs)
    if errs:
        raise MachineryFailure(f"{len(errs)} harness errors, first: {errs[0]['_harness_error']}\n{errs[0].get('_tb','')}")
    for rec in grecs:
        if "exc" in rec:
            if rec["exc"] in redcase.CLEAN_REFUSALS and rec.get("phase") == "call":
                continue
            ctx.violation({**rec["case"], "exc": rec["exc"]}, f"exception:{rec['exc']}", rec.get("msg"))
            continue
        t = (rec.get("tlc") or {}).get("simulate") or {}
        if t.get("error"):
            raise MachineryFailure(f"Exec.tla failed on a real graph: {t['error']}")
        ctx.cov["states"] += t.get("states", 0)
        ctx.cov["transitions"] += t.get("generated", 0)
        if t.get("violated") in ("CountedOnce", "ClosureSound"):
            ctx.violation(rec["case"], f"graph:{t['violated']}", "Exec.tla on the exported real graph")
    ctx.cov["real_graph_closures_checked"] = len(grecs)
    shared.run_reduce_and_validate(ctx, pcases, tag="c09-prov")
    ctx.cov["rule"] = ("(i) ALL incidence matrices of the listed sizes x merge (+ five/six-chunk matrices, padded chunks, 2x2 chunk grids) through the real planner; "
                       "(ii) dependency closures of real graphs of every strategy in Exec.tla; (iii) base-4 provenance sums over layouts and chunkings; "
                       "non-trivial = matrix with at least two different chunk rows")
    ctx.assumptions += ["equality with the transcribed algorithm is reported as DRIFT only; alarms come from the property relation"]


def replay(ctx, payload):
    case = {k: v for k, v in payload["case"].items() if k in ("B", "nl", "merge", "pad", "grid")}
    if "B" in case:
        print(run_planner_case(case))
        return 0
    return shared.replay_reduce(ctx, payload)
