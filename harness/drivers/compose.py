"""The composed specification spec/Flox.tla (Factorize -> Cohorts/Plan -> Rechunk ->
Aggs strategies -> Finish), checked by TLC and replayed into the real code.

model(ctx)                 exhaustive TLC run at small constants + vacuity witnesses
replay(ctx, clauses, ...)  TLC -simulate behaviours replayed into flox.groupby_reduce;
                           only the clauses owned by the calling property become
                           violations, everything else is model drift
"""
from __future__ import annotations

import copy
from concurrent.futures import ThreadPoolExecutor

from .. import common, composecase
from ..common import MachineryFailure
from . import shared

MODEL_CFG = """SPECIFICATION Spec
CHECK_DEADLOCK FALSE
CONSTANTS MaxLen = {maxlen}
MinLen = 1
NLabels = {nlabels}
SplitEvery = 2
Wide = FALSE
Reindexes = {{"none"}}
ByDasks = {{FALSE}}
NLabels2 = 0
ArrDasks = {{TRUE}}
Engines = {{"none"}}
Names = {{{names}}}
"""
MODEL_NAMES = '"nansum", "nanmax", "nanmean", "argmax", "nanfirst", "count", "nanvar", "sum"'
INVS = "INVARIANT Inv_Result\nINVARIANT Inv_CleanRefusal\nINVARIANT Inv_AutoPlanSound\n"


def model(ctx):
    from . import models

    models._write_table()
    c = dict(maxlen=2, nlabels=2) if ctx.tier == "quick" else dict(maxlen=3, nlabels=2)
    cfg = MODEL_CFG.format(names=MODEL_NAMES, **c)
    res = shared.run_model(ctx, "Flox", cfg + INVS, name=f"Flox[{c}]", constants=str(c), timeout=3000, heap="12g")
    if res.violated:
        _confirm_counterexample(ctx, res.violated, res.error_trace[-1] if res.error_trace else None, nlabels=c["nlabels"], nlabels2=0, se=2)
    # every reindex= setting, numpy and chunked labels (smaller inputs: the configuration space is 6x larger)
    c2 = dict(maxlen=1 if ctx.tier == "quick" else 2, nlabels=2)
    cfg2 = MODEL_CFG.format(names=MODEL_NAMES, **c2).replace('Reindexes = {"none"}', 'Reindexes = {"none", "true", "false"}').replace("ByDasks = {FALSE}", "ByDasks = {FALSE, TRUE}").replace("NLabels2 = 0", "NLabels2 = 2").replace("ArrDasks = {TRUE}", "ArrDasks = {TRUE, FALSE}").replace('Engines = {"none"}', 'Engines = {"none", "flox"}')
    res = shared.run_model(ctx, "Flox", cfg2 + INVS, name=f"Flox[{c2}, all reindex, numpy|dask labels, one|two groupers, chunked|in-memory array, engine none|flox]", constants=str(c2), timeout=5000, heap="24g")
    if res.violated:
        _confirm_counterexample(ctx, res.violated, res.error_trace[-1] if res.error_trace else None, nlabels=c2["nlabels"], nlabels2=2, se=2)
    small = MODEL_CFG.format(names='"nansum", "argmax"', maxlen=2 if ctx.tier == "quick" else 3, nlabels=2)
    for w in ("W_Cohorts", "W_Blockwise", "W_Refused", "W_FillRefusal"):
        r = shared.run_model(ctx, "Flox", small + f"INVARIANT {w}\n", name=f"Flox(vacuity witness {w})", constants="MaxLen=3", heap="12g")
        if r.violated != w:
            raise MachineryFailure(f"Flox.tla: witness {w} not reached — the composed model never exercises that path")


def _confirm_counterexample(ctx, inv, state, *, nlabels, nlabels2, se):
    """Flox.tla interprets the LIVE blueprint table: an invariant violated in the model is a statement about the code.  It
    counts only after the real call on the same input disagrees with the reference too (TraceReduce.tla); a counterexample
    the code does not show means the model is wrong (exit 2)."""
    from .. import redcase, tlc

    if not state or "cfg" not in state or not isinstance(state.get("cfg"), dict) or "sort" not in state["cfg"]:
        raise MachineryFailure(f"Flox.tla: {inv} violated, no usable counterexample state: {str(state)[:400]}")
    beh = {"vals": state["vals"], "labs": state["labs"], "labs2": state.get("labs2", []), "cuts": state["cuts"], "cfg": state["cfg"],
           "groups": state["fact"]["groups"], "plan": state["plan"], "result": state.get("result", []), "nlabels": nlabels, "nlabels2": nlabels2, "se": se}
    import json as _json

    table = _json.load(open("/verif/gen/AggTable.json"))
    case = composecase.case_of(beh, table)
    common._init_worker()
    two = "codes2" in case
    rec = composecase.run_two_case(case) if two else redcase.run_reduce_case(case)
    if two and "exc" not in rec:
        # the pair labels raveled to single tokens: the returned grid is the list of requested labels, in the order returned
        nl2 = case["nlabels2"]
        rec = dict(rec, codes=[-1 if a < 0 or b < 0 else a * nl2 + b for a, b in zip(case["codes"], case["codes2"])], req=list(rec["groups"]), sort=False)
    if "exc" in rec:
        if rec["exc"] in redcase.CLEAN_REFUSALS:
            raise MachineryFailure(f"Flox.tla: {inv} violated in the model but the real call refuses ({rec['exc']}): model wrong? {case}")
        ctx.violation(dict(case, compose=True), f"compose:design-counterexample-confirmed:{inv}:exception:{rec['exc']}", rec.get("msg"))
        return
    fails, _ = tlc.validate_trace("TraceReduce", [redcase.tlc_record(rec, 0)], tag="compose-cx", shards=1)
    if fails:
        ctx.violation(dict(case, compose=True, groups=rec["groups"], out=rec["out"]), f"compose:design-counterexample-confirmed:{inv}", {"expected": fails[0][3], "spec_result": beh["result"]})
        return
    raise MachineryFailure(f"Flox.tla: {inv} violated in the model, but the real call on the same input agrees with the reference: the model is wrong: {case} spec={beh['result']} real={rec['out']}")


def _simulate_parallel(n, seed, **kw):
    parts = 8
    per = max(1, n // parts)
    with ThreadPoolExecutor(parts) as ex:
        outs = list(ex.map(lambda i: composecase.simulate(per, seed * 1000 + i + 1, minlen=max(1, kw["maxlen"] - (i % 3)), **kw), range(parts)))
    behs, states = [], 0
    for b, info in outs:
        if info["violated"]:
            raise _ModelViolated(info)
        if not b:
            raise MachineryFailure(f"Flox.tla (simulation) produced no behaviour: {info['tail'][-600:]}")
        behs += b
        states += info["states"]
    return behs, states


class _ModelViolated(Exception):
    def __init__(self, info):
        super().__init__(info["violated"])
        self.info = info


def replay(ctx, clauses, *, n=None, configs=None, only=None):
    """clauses: set of clause names owned by ctx.prop ('compose:result', 'compose:labels', 'compose:unclean-exception')"""
    from . import models

    models._write_table()
    if n is None:
        n = 1600 if ctx.tier == "quick" else 40_000
    if configs is None:
        configs = [dict(maxlen=5, nlabels=3, se=2)] if ctx.tier == "quick" else \
            [dict(maxlen=5, nlabels=3, se=2), dict(maxlen=7, nlabels=3, se=3), dict(maxlen=6, nlabels=4, se=2)]
    total = 0
    for k, c in enumerate(configs):
        try:
            behs, states = _simulate_parallel(n // len(configs), ctx.seed * 17 + k, **c)
        except _ModelViolated as mv:
            # the model (interpreting the live blueprint table) contradicts the reference: confirm on the real code
            _confirm_counterexample(ctx, mv.info["violated"], mv.info.get("state"), nlabels=c["nlabels"], nlabels2=2, se=c["se"])
            ctx.cov["states"] += 1
            ctx.cov["transitions"] += 1
            continue
        if only is not None:
            behs = [b for b in behs if only(b)]
        ctx.cov["states"] += states
        ctx.cov["transitions"] += states
        ctx.cov["models"].append({"model": "Flox.tla -simulate", "constants": str(c), "behaviours": len(behs), "states_checked": states})
        # binding control: a behaviour whose predicted value is corrupted must be rejected by the replay
        _binding_control(behs)
        res = common.pmap("harness.composecase", "run_compose_case", behs)
        for r in res:
            if "_harness_error" in r:
                raise MachineryFailure(f"compose replay: {r['_harness_error']}\n{r.get('_tb', '')}")
            total += 1
            if r.get("nontrivial"):
                ctx.nontrivial(("compose", str(r["case"])))
            for clause, detail in r["fails"]:
                if clause in clauses:
                    case = dict(r["case"], compose=True, spec=r["spec"])
                    ctx.violation(case, clause, detail)
                else:
                    ctx.drift.append(f"{clause} (owned by another property's check): {detail} case={r['case']}")
            for d in r["drift"]:
                ctx.drift.append(d)
        if behs:
            ctx.sample({"compose_behaviour": {k2: behs[0][k2] for k2 in ("vals", "labs", "cuts", "cfg", "plan", "groups", "result")}})
    ctx.cov["replayed_behaviours"] += total
    ctx.cov["traces_validated_against_impl"] += total
    return total


def _binding_control(behs):
    for b in behs:
        if b["plan"]["kind"] == "ok" and b["result"] and any(v[1] > 0 for v in b["result"]) and not (b["cfg"]["method"] == "blockwise"):
            bad = copy.deepcopy(b)
            k = next(i for i, v in enumerate(bad["result"]) if v[1] > 0)
            bad["result"][k] = [bad["result"][k][0] + 7, bad["result"][k][1]]
            common._init_worker()
            r = composecase.run_compose_case(bad)
            if not any(cl == "compose:result" for cl, _ in r["fails"]):
                raise MachineryFailure(f"compose binding control: a corrupted predicted value was accepted by the replay: {r}")
            return
    raise MachineryFailure("compose binding control: no behaviour with a specified value to corrupt")
