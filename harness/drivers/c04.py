"""C04 — chunk/combine/finalize decomposition exact; fills neutral; user-defined
Aggregation objects run by the same machinery.

M  spec/MC_Laws (Exact / Bracket / Neutral) over gen/AggTable.tla = the LIVE
   registry after _initialize_aggregation + the driver's user-defined
   Aggregation objects; every member sequence over the alphabet, every split
   into three ordered parts incl. empty ones, every reachable combine kind.
R  every (sequence, split) class is replayed as a 3-block dask array (a second
   group keeps blocks non-empty where the first is absent), by name and as
   flox.Aggregation objects; every task validated by TraceGraph.tla, every
   final result of a lawful aggregation by TraceReduce.tla.
"""
from __future__ import annotations

from .. import gen, redcase
from ..common import MachineryFailure
from . import graphreplay, models, shared

BUILTIN = ["sum", "nansum", "prod", "nanprod", "mean", "nanmean", "var", "nanvar", "std", "nanstd", "max", "nanmax",
           "min", "nanmin", "argmax", "nanargmax", "argmin", "nanargmin", "nanfirst", "nanlast", "count"]
USER = ["user_range", "user_nanrange", "user_meansq", "user_maxofsums"]
FILLER = gen.iv(1)


def build(s, split, func, reindex, method, split_every, min_count):
    a, b = split
    if a > b or b > len(s):
        return None
    parts = [s[:a], s[a:b], s[b:]]
    vals, codes, chunks = [], [], []
    for p in parts:
        vals += p + [FILLER]
        codes += [0] * len(p) + [1]
        chunks.append(len(p) + 1)
    if reindex is True and (method == "cohorts" or func in redcase.ARG_FUNCS):
        return None
    c = {"func": func, "vals": vals, "dtype": "f8", "codes": codes, "label_kind": "int", "chunks": chunks,
         "method": method, "reindex": reindex, "split_every": split_every,
         "ddof": 1 if func in redcase.VAR_FUNCS | redcase.STD_FUNCS else None}
    if min_count:
        c.update(req=[0, 1], fill=[0, 0], min_count=min_count)
    return c


def space(name, alpha, n, funcs):
    splits = [(a, b) for a in range(n + 1) for b in range(a, n + 1)]
    return gen.Space(name, {"s": gen.seqs(alpha, n), "split": splits, "func": funcs, "reindex": [None, True, False],
                            "method": ["map-reduce", "cohorts"], "split_every": [2, None], "min_count": [None, 1]}, build)


def run(ctx):
    models.laws(ctx)
    budget = 3000 if ctx.tier == "quick" else 60000
    spaces = [space("f8-1", gen.ALPHA_F8, 1, BUILTIN + USER), space("f8-2", gen.ALPHA_F8, 2, BUILTIN + USER),
              space("f8-3", gen.ALPHA_F8, 3, BUILTIN + USER)]
    cases = []
    for sp in spaces:
        cases += sp.sample(ctx.rng, budget // len(spaces))
    for i, c in enumerate(cases):
        c["order_seed"] = (ctx.seed * 31 + i) % 997
    ctx.cov["space"] = {sp.name: sp.size for sp in spaces}
    recs = graphreplay.replay_graphs(ctx, "C04", cases)
    # final results of lawful aggregations against the whole-group reference
    lines, by_id = [], {}
    for rec in recs:
        if "out" not in rec or rec["case"]["func"] == "user_maxofsums":
            continue
        r = dict(rec["case"])
        r["groups"], r["out"] = rec["groups"], rec["out"]
        i = len(lines)
        by_id[i] = r
        lines.append(redcase.tlc_record(r, i))
        if shared.case_nontrivial(r):
            ctx.nontrivial(shared.case_key(r))
    from .. import tlc

    fails, stats = tlc.validate_trace("TraceReduce", lines, tag="c04-final", shards=4)
    for f in fails:
        ctx.violation(by_id[f[1]], "final:" + "+".join(sorted(f[2])), {"expected": f[3], "got": by_id[f[1]]["out"]})
    ctx.add_traces(len(lines), stats, name="TraceReduce(final of 3-block replays)")
    for r in list(by_id.values())[:3]:
        ctx.sample({k: r.get(k) for k in ("func", "vals", "codes", "chunks", "method", "reindex", "split_every", "min_count", "groups", "out")})
    ctx.cov["rule"] = ("(member sequence over {-2,-1,0,1,3,NaN,+inf,-inf}, split into three ordered parts incl. empty, aggregation by name or user-defined "
                       "Aggregation object, reindex mode, strategy, split_every, min_count); non-trivial = group with >=2 members or a special value")
    ctx.assumptions += ["values exactly representable; rounding outside the model",
                        "user-defined aggregations are the four objects of harness/userlib.py (three lawful, one deliberately unlawful and only checked for 'executed as specified')"]


def replay(ctx, payload):
    case = {k: v for k, v in payload["case"].items() if k not in ("groups", "out", "exc", "msg", "task_kind", "phase")}
    recs = graphreplay.replay_graphs(ctx, "C04", [case])
    print(recs[0].get("out"), recs[0].get("exc"))
    return 1 if ctx.violations else 0
