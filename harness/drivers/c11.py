"""C11 — result dtype, shape and chunk metadata are plan-independent and truthful.

M  MC_Dtypes: the full table (13 dtypes x 25 reductions x dtype= x fill) of
   Dtypes!RefDtype with structural invariants.
T  every cell is executed on real flox for every engine and strategy (eager, and a
   3-block array under map-reduce / cohorts / blockwise / auto); the lazy result's
   announced dtype / shape / chunks / array type and every computed block's dtype /
   shape are recorded; TraceDtype.tla requires result dtype = RefDtype (hence the same
   on every path) and announced = computed.
"""
from __future__ import annotations

import warnings

import numpy as np

from .. import gen, redcase, tlc
from ..common import MachineryFailure, harness_errors, pmap
from . import shared

NPD = {"b1": "bool", "i1": "int8", "i2": "int16", "i4": "int32", "i8": "int64", "u1": "uint8", "u2": "uint16", "u4": "uint32", "u8": "uint64",
       "f4": "float32", "f8": "float64", "M8": "datetime64[ns]", "m8": "timedelta64[ns]"}
INV = {np.dtype(v).str[1:] if False else v: k for k, v in NPD.items()}
FUNCS = ["sum", "nansum", "prod", "nanprod", "mean", "nanmean", "var", "nanvar", "std", "nanstd", "max", "nanmax", "min", "nanmin", "first", "nanfirst",
         "last", "nanlast", "count", "argmax", "argmin", "nanargmax", "nanargmin", "any", "all"]
DT_FUNCS = ["max", "nanmax", "min", "nanmin", "first", "nanfirst", "last", "nanlast", "count"]


def short(dt):
    dt = np.dtype(dt)
    if dt.kind == "M":
        return "M8"
    if dt.kind == "m":
        return "m8"
    return {v: k for k, v in NPD.items()}.get(dt.name, dt.name)


def run_dtype_case(case):
    import dask
    import dask.array as da

    from flox.core import groupby_reduce

    warnings.filterwarnings("ignore")
    d = np.dtype(NPD[case["indtype"]])
    base = np.array([1, 0, 1, 1, 0, 1])
    if d.kind in "Mm":
        array = (base * 86400 * 10**9).astype("int64").view(d)
    else:
        array = base.astype(d)
    by = np.array([0, 1, 0, 1, 2, 2]) if case["path"] != "blockwise" else np.array([0, 0, 1, 1, 2, 2])
    kw = {"func": case["func"]}
    if case["user"] != "none":
        kw["dtype"] = NPD[case["user"]]
    if case["fill"] != "none":
        kw["fill_value"] = np.nan if case["fill"] == "nan" else 1
        kw["expected_groups"] = np.array([0, 1, 2, 3])
    if case["engine"]:
        kw["engine"] = case["engine"]
    out = dict(case)
    try:
        if case["path"] == "eager":
            r, g = groupby_reduce(array, by, **kw)
            out.update(lazy=False, announced="-", announced_shape=[], blocks_ok=True)
        else:
            arr = da.from_array(array, chunks=2)
            r, g = groupby_reduce(arr, by, method=None if case["path"] == "auto" else case["path"], **kw)
            out["lazy"] = hasattr(r, "dask")
            if out["lazy"]:
                out["announced"] = short(r.dtype)
                out["announced_shape"] = [int(s) for s in r.shape]
                meta_ok = isinstance(r._meta, np.ndarray)
                blocks = [np.asarray(b) for b in dask.compute(*[r.blocks[i] for i in range(r.numblocks[-1])], scheduler="synchronous")]
                ok = meta_ok and all(short(b.dtype) == out["announced"] for b in blocks) and [int(b.shape[-1]) for b in blocks] == [int(c) for c in r.chunks[-1]]
                out["blocks_ok"] = bool(ok)
                r = r.compute(scheduler="synchronous")
            else:
                out.update(announced="-", announced_shape=[], blocks_ok=True)
        r = np.asarray(r)
        out["dtype"] = short(r.dtype)
        out["shape"] = [int(s) for s in r.shape]
    except Exception as e:  # noqa: BLE001
        out.update(exc=type(e).__name__, msg=str(e)[:160])
    return out


def build(func, indtype, user, fill, engine, path):
    k = np.dtype(NPD[indtype]).kind
    if k in "Mm" and func not in DT_FUNCS:
        return None
    if func in ("any", "all") and indtype != "b1":
        return None
    if user != "none":
        if engine == "numbagg" or func in ("any", "all", "count") or k in "Mm" or "arg" in func:
            return None
        if func in ("max", "nanmax", "min", "nanmin", "first", "nanfirst", "last", "nanlast") and user != "f8":
            return None
    if fill == "int" and (k in "Mm" or func in ("any", "all")):
        return None
    if fill == "nan" and func in ("any", "all"):
        return None
    if engine == "flox" and "arg" in func:
        return None
    if func in ("first", "last") and path not in ("eager", "blockwise"):
        return None
    if "arg" in func and path == "blockwise":
        return None
    return {"func": func, "indtype": indtype, "user": user, "fill": fill, "engine": engine, "path": path}


def run(ctx):
    cfg = "SPECIFICATION Spec\nCHECK_DEADLOCK FALSE\nINVARIANT WidenIdempotent\nINVARIANT HoldsNaN\nINVARIANT IntFamilyIntegral\nINVARIANT FloatFamilyFloating\n"
    res = shared.run_model(ctx, "MC_Dtypes", cfg, name="MC_Dtypes", constants="13 dtypes x 25 reductions x dtype= x fill")
    if res.violated:
        raise MachineryFailure(f"MC_Dtypes: {res.violated} violated")
    sp = gen.Space("cells", {"func": FUNCS, "indtype": list(NPD), "user": ["none", "none", "f8", "f4", "i8"], "fill": ["none", "none", "nan", "int"],
                             "engine": [None, "numpy", "flox", "numbagg", "numba"], "path": ["eager", "auto", "map-reduce", "cohorts", "blockwise"]}, build)
    cases = sp.sample(ctx.rng, 6000 if ctx.tier == "quick" else 10**6)
    ctx.cov["space"] = {"cells": sp.size, "visited": len(cases)}
    ctx.cov["exhaustive"] = ctx.tier == "thorough"
    recs = pmap("harness.drivers.c11", "run_dtype_case", cases)
    errs = harness_errors(recs)
    if errs:
        raise MachineryFailure(f"{len(errs)} harness errors, first: {errs[0]['_harness_error']}\n{errs[0].get('_tb','')}")
    lines, owner = [], {}
    for rec in recs:
        ctx.cov["evaluations"] += 1
        if "exc" in rec:
            if rec["exc"] in redcase.CLEAN_REFUSALS:
                ctx.cov["refused_cleanly"] = ctx.cov.get("refused_cleanly", 0) + 1
                continue
            ctx.violation(rec, f"exception:{rec['exc']}", rec["msg"])
            continue
        line = {"id": len(lines), "func": rec["func"], "indtype": rec["indtype"], "user": rec["user"], "fill": rec["fill"], "dtype": rec["dtype"],
                "lazy": rec["lazy"], "announced": rec["announced"], "announced_shape": rec["announced_shape"], "shape": rec["shape"], "blocks_ok": rec["blocks_ok"]}
        owner[line["id"]] = rec
        lines.append(line)
        ctx.nontrivial(str([rec[k] for k in ("func", "indtype", "user", "fill", "engine", "path")]))
    ctrl = dict(lines[0], id=-7, dtype="m8", lazy=True, announced="f4", blocks_ok=False)
    fails, stats = tlc.validate_trace("TraceDtype", lines + [ctrl], tag="c11", shards=4)
    seen = False
    for f in fails:
        if f[1] == -7:
            seen = {"dtype", "announced"} <= set(f[2])
            continue
        ctx.violation(owner[f[1]], "+".join(sorted(f[2])), {"expected_dtype": f[3], "got": owner[f[1]]["dtype"], "announced": owner[f[1]].get("announced")})
    if not seen:
        raise MachineryFailure("TraceDtype control accepted")
    ctx.add_traces(len(lines), stats, name="TraceDtype")
    ctx.sample(lines[0])
    ctx.sample(lines[len(lines) // 2])
    ctx.cov["rule"] = ("cells = 25 reductions x 13 input dtypes x dtype= {None,f8,f4,i8} x fill {None,NaN,int} x 5 engine settings x {eager, auto, map-reduce, cohorts, blockwise}; "
                       "non-trivial = distinct cell")
    ctx.assumptions += ["platform integer = int64 (this sandbox)", "datetime/timedelta only for min/max/first/last/count as the property states"]


def replay(ctx, payload):
    case = {k: v for k, v in payload["case"].items() if k in ("func", "indtype", "user", "fill", "engine", "path")}
    print(run_dtype_case(case))
    return 0
