"""C05 — one output slot per requested label; fill_value and min_count exact.

M  MC_Factorize (requested labels -> codes: the slots are the sort contract, -1 iff
   missing/unrequested) and MC_Pipeline with a requested label that never occurs and
   the min_count rows of the live registry (absent slot = the user's fill; counter
   below min_count = the user's fill).
T  Returns of real calls over labels x expected_groups (sub-/super-/disjoint sets,
   sorted and unsorted) x sort x fill x min_count x reductions x engines, eager and
   every strategy/chunking, validated by TraceReduce.tla.
"""
from __future__ import annotations

from .. import gen, redcase
from . import models, shared

FUNCS = ["sum", "nansum", "prod", "nanprod", "mean", "nanmean", "var", "nanvar", "std", "nanstd", "max", "nanmax", "min", "nanmin",
         "argmax", "nanargmax", "argmin", "nanargmin", "nanfirst", "nanlast", "count", "first", "last"]
REQS = [[0, 1, 2], [0, 1], [2, 0], [3], [0, 1, 2, 3], [3, 1, 0], [1]]
FILLS = [[0, 0], [0, 1], [-1, 1], [1000, 1], "False"]
MINCOUNTS = [None, 0, 1, 2, 9]
VALSETS = {3: [[gen.iv(-2), gen.iv(1), gen.NAN], [gen.iv(3), gen.iv(3), gen.iv(-1)], [gen.NAN, gen.NAN, gen.iv(0)]],
           4: [[gen.iv(-2), gen.iv(1), gen.NAN, gen.iv(3)], [gen.iv(0), gen.iv(0), gen.iv(5), gen.iv(-1)], [gen.NAN, gen.iv(2), gen.NAN, gen.iv(2)]],
           5: [[gen.iv(-2), gen.iv(1), gen.NAN, gen.iv(3), gen.iv(1)], [gen.iv(4), gen.iv(-4), gen.iv(0), gen.NAN, gen.NAN]]}


def confined(codes, chunks):
    from .c02 import confined as c

    return c(codes, chunks)


def build(vals, codes, req, sort, fill, min_count, func, engine, mode, label_kind, req_form="array", by_dask=False):
    n = len(vals)
    if len(codes) != n:
        return None
    has_missing = min(codes) < 0
    kind = "float" if has_missing else label_kind
    if engine == "flox" and func in redcase.ARG_FUNCS:
        return None
    present = {c for c in codes if c >= 0}
    if fill is None and not set(req) <= present:
        return None        # flox documents no default for absent labels
    if fill == "False" and func not in ("any", "all", "max", "min", "sum", "count", "nanfirst"):
        return None
    c = {"func": func, "vals": vals, "dtype": "f8", "codes": codes, "label_kind": kind, "req": req, "sort": sort, "fill": fill,
         "min_count": min_count, "engine": engine, "ddof": 1 if func in redcase.VAR_FUNCS | redcase.STD_FUNCS else None, "req_form": req_form}
    if by_dask and (mode == "eager" or mode[0] in ("cohorts", "blockwise") or kind == "str"):
        return None
    if mode != "eager":
        method, chunks_i = mode
        comps = gen.compositions(n)
        chunks = comps[chunks_i % len(comps)]
        if func in ("first", "last") and method != "blockwise":
            return None
        if method == "blockwise" and not confined(codes, chunks):
            return None
        c.update(method=method, chunks=chunks, by_dask=by_dask)
    return c


def run(ctx):
    models.factorize(ctx)
    models.pipeline(ctx, configs=[dict(maxlen=2, nlabels=2, ses="2", dt="f8", miss="TRUE")] if ctx.tier == "quick" else None)
    spaces = []
    modes = ["eager"] + [(m, i) for m in (None, "map-reduce", "cohorts", "blockwise") for i in (0, 1, 2, 3, 5, 7)]
    for n in (3, 4, 5):
        codes = gen.all_codes(3, 3, True) if n == 3 else [c for c in gen.code_patterns(n)] + [[2] * n, [1, 2] * (n // 2) + [2] * (n % 2)]
        spaces.append(gen.Space(f"labels{n}", {"vals": VALSETS[n], "codes": codes, "req": REQS, "sort": [True, False], "fill": FILLS + [None],
                                               "min_count": MINCOUNTS, "func": FUNCS, "engine": [None, "numpy", "flox", "numbagg"], "mode": modes,
                                               "label_kind": ["int", "str", "float"], "req_form": ["array", "index", "list"], "by_dask": [False, False, True]}, build))
    # many requested labels at once (float / string levels), unrequested labels repeated in between
    def build_wide(codes, nreq, kind, func, fill, mode, sort):
        req = list(range(0, 2 * nreq, 2))
        if not sort:
            req = req[::-1]
        vals = [gen.iv((5 * i) % 9 - 4) if i % 6 != 5 else gen.NAN for i in range(len(codes))]
        c = {"func": func, "vals": vals, "dtype": "f8", "codes": codes, "label_kind": kind, "req": req, "sort": sort, "fill": fill, "min_count": None,
             "ddof": None}
        if mode != "eager":
            c.update(method=mode, chunks=[4, 4, 4])
        return c

    wide_codes = [[1, 1, 2, 3, 3, 3, 10, 11, 11, 40, 41, 41], [7, 7, 7, 6, 8, 8, 21, 21, 20, 59, 59, 58], [0, 2, 4, 5, 5, 6, 6, 9, 9, 9, 30, 31],
                  [33, 33, 32, 34, 35, 35, 1, 1, 0, 2, 77, 77]]
    spaces.append(gen.Space("wide", {"codes": wide_codes, "nreq": [12, 20, 30], "kind": ["wide", "widestr"], "func": ["sum", "count", "nanmax", "nanmean", "nanfirst"],
                                     "fill": [[0, 1], [-1, 1], [0, 0]], "mode": ["eager", "map-reduce", "cohorts", None], "sort": [True, False]}, build_wide))
    # requested labels given as a pandas RangeIndex: RangeIndex(n) (labels are their own codes; negative and too large labels are
    # simply not requested), and ranges that do not start at 0 or have a step (token t of kind "srange" is label [-3,-2,0,1,2,3][t])
    def build_range(codes, req, func, fill, mode, vsel, by_dask=False):
        vals = [gen.iv((5 * i + vsel) % 9 - 4) if (i + vsel) % 6 != 5 else gen.NAN for i in range(len(codes))]
        c = {"func": func, "vals": vals, "dtype": "f8", "codes": codes, "label_kind": "srange", "req": req, "req_range": True, "sort": True, "fill": fill,
             "min_count": None, "ddof": None}
        if mode != "eager":
            c.update(method=mode, chunks=[2, 2, 2])
            if by_dask:
                c["by_dask"] = True
        elif by_dask:
            return None
        return c

    spaces.append(gen.Space("rangeindex", {"codes": [[2, 3, 4, 2, 3, 4], [0, 2, 3, 1, 4, 5], [5, 4, 3, 2, 1, 0], [3, 3, 5, 5, 0, 2], [4, 4, 4, 4, 4, 4]],
                                           # (the last four are DESCENDING ranges, negative step: sort=True still returns ascending labels)
                                           "req": [[2, 3, 4], [2, 3], [3, 4, 5], [3, 5], [2, 4], [0, 1], [2], [4], [4, 3, 2], [5, 4, 3], [4, 2], [1, 0]],
                                           "func": ["sum", "count", "nanmax", "nanmean", "nanfirst", "argmax"], "fill": [[0, 1], [-1, 1], [0, 0]],
                                           "mode": ["eager", "map-reduce", "cohorts", None], "vsel": [0, 1], "by_dask": [False, True]}, build_range))
    # boolean data: the user's fill must arrive verbatim (a NaN fill cannot be held by bool: the result widens)
    def build_bool(vals, codes, req, func, fill, mode):
        present = {c for c in codes if c >= 0}
        c = {"func": func, "vals": vals, "dtype": "b1", "codes": codes, "label_kind": "int", "req": req, "sort": True, "fill": fill, "min_count": None, "ddof": None}
        if fill is None and not set(req) <= present:
            return None
        if mode != "eager":
            c.update(method=mode, chunks=[2, 2])
        return c

    spaces.append(gen.Space("bool", {"vals": [[gen.iv(1), gen.iv(0), gen.iv(1), gen.iv(1)], [gen.iv(0), gen.iv(0), gen.iv(1), gen.iv(0)]],
                                     "codes": [[0, 1, 0, 1], [1, 1, 0, 0], [0, 0, 0, 0], [2, 0, 2, 0]], "req": [[0, 1], [0, 1, 2], [1, 3], [3]],
                                     "func": ["max", "min", "nanmax", "nanfirst", "nanlast", "any", "all", "sum", "count"],
                                     "fill": [[0, 0], [0, 1], [1, 1], [-1, 1], None], "mode": ["eager", "map-reduce", "cohorts", None]}, build_bool))
    budget = 30000 if ctx.tier == "quick" else 500000
    cases = []
    for sp in spaces:
        cases += sp.sample(ctx.rng, budget // len(spaces))
    ctx.cov["space"] = {sp.name: sp.size for sp in spaces}
    shared.run_reduce_and_validate(ctx, cases, tag="c05")
    from . import compose

    # Flox.tla behaviours with requested labels (given unsorted): one slot per requested label, in the contract's order
    compose.replay(ctx, {"compose:labels"}, n=800 if ctx.tier == "quick" else 20000, only=lambda b: b["cfg"]["hasExpected"])
    ctx.cov["rule"] = ("(labels over 3 tokens + missing, expected_groups in {subset, superset, disjoint, unsorted}, sort, fill in {NaN,0,-1,1000,False,None-if-all-present}, "
                       "min_count in {None,0,1,2,9}, 23 reductions, 4 engine settings, eager | method x chunking, int/str/float labels); "
                       "non-trivial = group with >=2 members or a special value")
    ctx.assumptions += ["fill_value=None only when every requested label occurs (no documented default)",
                        "with min_count=None a present group without any valid member may hold either NumPy's answer or the fill (Ref: unspecified)"]


def replay(ctx, payload):
    return shared.replay_reduce(ctx, payload)
