"""C15 — xarray_reduce agrees with xarray's own groupby (dims, coords, names, attrs,
values) and with groupby_reduce on the underlying arrays.

M  MC_XrDims: the dimension rule (XrDims!NativeDims) over all objects of 1-4
   dimensions in every order, 1-D/2-D groupers and every `dim`: the group dimension
   appears exactly once, exactly the reduced dimensions disappear, order kept.
R  every object shape is instantiated with alphabet data and run three ways: the
   specification's prediction, flox.xarray.xarray_reduce, and obj.groupby(...).<func>()
   under xr.set_options(use_flox=False) — the property's oracle.  TraceXr.tla requires
   flox = native on dims / coords / values / attrs / name, flox = groupby_reduce on the
   raw arrays, pass-through of variables lacking the reduced dimension; prediction vs
   native is DRIFT only.
"""
from __future__ import annotations

import itertools
import warnings

import numpy as np

from .. import gen, redcase, tlc
from ..common import MachineryFailure, harness_errors, pmap
from . import shared

SIZES = {"x": 4, "y": 2, "z": 3, "t": 2}
LAB_X = [1, 0, 1, 2]
LAB_XY = [[1, 0], [0, 1], [1, 1], [2, 0]]
FUNCS = ["sum", "mean", "max", "min", "count", "var", "prod", "first", "last", "median", "any", "quantile", "quantile_vec"]


def make_values(shape, kind):
    n = int(np.prod(shape))
    base = np.array([((3 * i) % 7) - 3 for i in range(n)], dtype=float).reshape(shape)
    if kind == "nan":
        flat = base.reshape(-1)
        flat[::4] = np.nan
        base = flat.reshape(shape)
    if kind == "int":
        return base.astype("int64")
    if kind == "bool":
        return base > 0
    return base


def run_xr_case(case):
    import dask
    import xarray as xr

    from flox.core import groupby_reduce
    from flox.xarray import xarray_reduce

    warnings.filterwarnings("ignore")
    dims = tuple(case["dims"])
    shape = tuple(SIZES[d] for d in dims)
    vals = make_values(shape, case["data"])
    out = dict(case)
    try:
        coords = {"x": [10, 20, 30, 40][: SIZES["x"]]} if "x" in dims else {}
        da = xr.DataArray(vals, dims=dims, coords=coords, name="v", attrs={"units": "m"})
        gk = case["grouper"]
        if gk == "coord1d":
            da = da.assign_coords(lab=("x", LAB_X))
            grp, gname, gdims = "lab", "lab", ["x"]
        elif gk == "ext1d":
            grp = xr.DataArray(LAB_X, dims="x", name="lab")
            gname, gdims = "lab", ["x"]
        elif gk == "coord2d":
            da = da.assign_coords(lab=(("x", "y"), LAB_XY))
            grp, gname, gdims = "lab", "lab", ["x", "y"]
        else:
            grp = xr.DataArray(LAB_XY, dims=("x", "y"), name="lab")
            gname, gdims = "lab", ["x", "y"]
        if not set(gdims) <= set(dims):
            return dict(out, skipped=True)
        obj = da
        if case["dataset"]:
            other_dims = tuple(d for d in dims if d not in gdims) or ("t",)
            other = xr.DataArray(np.arange(int(np.prod([SIZES[d] for d in other_dims])), dtype=float).reshape([SIZES[d] for d in other_dims]), dims=other_dims, name="w")
            obj = xr.Dataset({"v": da, "v2": da * 2, "w": other}, attrs={"title": "ds"})
        if case["chunked"]:
            obj = obj.chunk({d: (2 if d == "x" else -1) for d in dims})
        dimarg = case["dim"]
        kw = {}
        if dimarg == "all":
            kw["dim"] = ...
            reduce_ = list(dims)
        elif dimarg == "default":
            reduce_ = list(gdims)
        else:
            kw["dim"] = dimarg
            reduce_ = list(dimarg)
        func = case["func"]
        qarg = None
        if func.startswith("quantile"):
            qarg = 0.5 if func == "quantile" else [0.25, 0.75]
            func = "quantile"
        skipna = case["skipna"]
        fkw = dict(kw)
        nkw = dict(kw)
        if func not in ("count", "first", "last", "any"):
            fkw["skipna"] = skipna
            nkw["skipna"] = skipna
        if case["min_count"] and func in ("sum", "prod"):
            fkw["min_count"] = case["min_count"]
            nkw["min_count"] = case["min_count"]
        fkw["keep_attrs"] = case["keep_attrs"]
        nkw["keep_attrs"] = case["keep_attrs"]
        if qarg is not None:
            fkw["q"] = qarg
            nkw["q"] = qarg
        with xr.set_options(use_flox=False):
            native = getattr(obj.groupby(grp), func)(**nkw)
        eg = {}
        if case["chunked"] and gk.startswith("coord") and False:
            pass
        flox = xarray_reduce(obj, grp, func=func, **fkw)
        if case["chunked"]:
            native, flox = dask.compute(native, flox, scheduler="synchronous")
        nv = native["v"] if case["dataset"] else native
        fv = flox["v"] if case["dataset"] else flox
        out["native_dims"], out["flox_dims"] = list(nv.dims), list(fv.dims)
        same_dims = out["native_dims"] == out["flox_dims"]
        out["same_coords"] = bool(set(native.coords) == set(flox.coords) and all(np.array_equal(np.asarray(native[c]), np.asarray(flox[c])) and native[c].dims == flox[c].dims for c in native.coords))
        fvt = fv.transpose(*nv.dims) if set(nv.dims) == set(fv.dims) else fv
        out["same_values"] = bool(fvt.shape == nv.shape and np.allclose(np.asarray(nv, dtype=float), np.asarray(fvt, dtype=float), rtol=1e-12, atol=1e-12, equal_nan=True))
        # the property compares attributes "with keep_attrs" only
        out["same_attrs"] = bool(not case["keep_attrs"] or (dict(native.attrs) == dict(flox.attrs) and dict(nv.attrs) == dict(fv.attrs)))
        out["same_name"] = bool(nv.name == fv.name)
        out["bad_vars"] = []
        if case["dataset"]:
            same_vars = set(native.data_vars) == set(flox.data_vars)
            bad = [] if same_vars else ["<variables differ>"]
            if same_vars:
                for k in native.data_vars:
                    a, b = native[k], flox[k]
                    ok = set(a.dims) == set(b.dims) and np.allclose(np.asarray(a, dtype=float), np.asarray(b.transpose(*a.dims), dtype=float), equal_nan=True)
                    if not ok:
                        bad.append(k)
            var_dims = {k: list(obj[k].dims) for k in obj.data_vars}
            eff = set(reduce_)
            if dimarg == "all":
                eff = set().union(*[set(v) for v in var_dims.values()])
            # a variable WITHOUT any reduced dimension "passes through unchanged" (property text): accept native's answer or the
            # unchanged values broadcast along the group dimension
            passthrough_ok = True
            for k in list(bad):
                if not (eff & set(var_dims[k])):
                    src = np.asarray(dask.compute(obj[k])[0], dtype=float)
                    got = flox[k]
                    unchanged = all(np.array_equal(np.asarray(got.isel({gname: i}).transpose(*obj[k].dims), dtype=float), src, equal_nan=True) for i in range(got.sizes[gname])) if gname in got.dims else np.array_equal(np.asarray(got, dtype=float), src, equal_nan=True)
                    if unchanged:
                        bad.remove(k)
                    else:
                        passthrough_ok = False
            out["bad_vars"] = bad
            # variables whose DIMENSIONS differ from native's (not only their values)
            out["bad_dim_vars"] = [k for k in bad if k in native.data_vars and k in flox.data_vars and set(native[k].dims) != set(flox[k].dims)]
            out["same_values"] = bool(not bad)
            out["var_dims"] = var_dims
            out["eff_reduce"] = sorted(eff)
            out["passthrough_ok"] = passthrough_ok
        else:
            out["passthrough_ok"] = True
        # values = groupby_reduce on the underlying arrays (1-D grouper reduced over its own dim only)
        core_ok = True
        if len(gdims) == 1 and dimarg == "default" and func not in ("median", "quantile"):
            ax = dims.index("x")
            arr = np.moveaxis(np.asarray(vals), ax, -1)
            name = func
            if func not in ("count", "first", "last", "any") and (skipna or (skipna is None and arr.dtype.kind == "f")):
                name = "nan" + func
            if func in ("first", "last") and arr.dtype.kind == "f":
                name = "nan" + func     # xarray's first()/last() skip missing values by default
            kw2 = {}
            if case["min_count"] and func in ("sum", "prod"):
                kw2["min_count"] = case["min_count"]
            r, g = groupby_reduce(arr, np.array(LAB_X), func=name, **kw2)
            fcore = np.moveaxis(np.asarray(fv.transpose(*[d for d in fv.dims if d != gname], gname), dtype=float), -1, -1)
            core_ok = bool(fcore.shape == np.asarray(r).shape and np.allclose(fcore, np.asarray(r, dtype=float), equal_nan=True))
        out["core_ok"] = core_ok
        out["gdims"], out["gname"], out["reduce"] = gdims, gname, reduce_
    except Exception as e:  # noqa: BLE001
        out.update(exc=type(e).__name__, msg=str(e)[:200])
    return out


def build(dims, grouper, dim_i, func, skipna, data, chunked, dataset, keep_attrs, min_count):
    dims = list(dims)
    gd = ["x"] if grouper.endswith("1d") else ["x", "y"]
    if not set(gd) <= set(dims):
        return None
    rest = [d for d in dims if d not in gd]
    # (the last option names only dimensions the grouper does NOT have: a plain reduction inside every group)
    options = ["default", "all"] + [gd + list(c) for r in range(1, len(rest) + 1) for c in itertools.combinations(rest, r)][:2] + ([[rest[-1]]] if rest else [])
    dimarg = options[dim_i % len(options)]
    if func in ("first", "last") and (dimarg != "default" or len(gd) > 1 or chunked):
        return None
    if func in ("median", "quantile", "quantile_vec") and (chunked or data in ("bool",)):
        return None
    if func in ("quantile", "quantile_vec") and dataset:
        return None     # quantiles are exercised on DataArrays
    if func == "any" and data != "bool":
        return None
    if data == "bool" and func not in ("any", "sum", "count", "max"):
        return None
    if data == "int" and skipna is True and func in ("first",):
        return None
    if min_count and func not in ("sum", "prod"):
        return None
    if min_count and data != "nan":
        return None
    return {"dims": dims, "grouper": grouper, "dim": dimarg, "func": func, "skipna": skipna, "data": data, "chunked": chunked, "dataset": dataset,
            "keep_attrs": keep_attrs, "min_count": min_count}


def run(ctx):
    cfg = "SPECIFICATION Spec\nCHECK_DEADLOCK FALSE\nINVARIANT GroupOnce\nINVARIANT KeptExactly\nINVARIANT NoDuplicates\nINVARIANT OrderKept\n"
    res = shared.run_model(ctx, "MC_XrDims", cfg, name="MC_XrDims", constants="objects of 1-4 dims over {x,y,z,t}, 1-D/2-D groupers, all reduce sets")
    if res.violated:
        raise MachineryFailure(f"MC_XrDims: {res.violated} violated")
    allperms = [p for r in (1, 2, 3) for s in itertools.combinations(["x", "y", "z"], r) for p in itertools.permutations(s)] + [("z", "x", "y", "t"), ("x", "t", "y", "z")]
    sp = gen.Space("objs", {"dims": allperms, "grouper": ["coord1d", "ext1d", "coord2d", "ext2d"], "dim_i": range(5), "func": FUNCS,
                            "skipna": [None, True, False], "data": ["nan", "float", "int", "bool"], "chunked": [False, True], "dataset": [False, True],
                            "keep_attrs": [True, False], "min_count": [None, 1, 3]}, build)
    cases = sp.sample(ctx.rng, 3000 if ctx.tier == "quick" else 60000)
    ctx.cov["space"] = {"objs": sp.size, "visited": len(cases)}
    recs = pmap("harness.drivers.c15", "run_xr_case", cases)
    errs = harness_errors(recs)
    if errs:
        raise MachineryFailure(f"{len(errs)} harness errors, first: {errs[0]['_harness_error']}\n{errs[0].get('_tb','')}")
    lines, owner = [], {}
    for rec in recs:
        ctx.cov["evaluations"] += 1
        if rec.get("skipped"):
            continue
        brief = {k: rec.get(k) for k in ("dims", "grouper", "dim", "func", "skipna", "data", "chunked", "dataset", "keep_attrs", "min_count", "exc", "msg", "bad_vars", "bad_dim_vars", "var_dims", "eff_reduce", "reduce", "gdims")}
        if "exc" in rec:
            if rec["exc"] in redcase.CLEAN_REFUSALS:
                ctx.cov["refused_cleanly"] = ctx.cov.get("refused_cleanly", 0) + 1
                continue
            ctx.violation(brief, f"exception:{rec['exc']}", rec["msg"])
            continue
        line = {"id": len(lines), "objdims": rec["dims"], "gdims": rec["gdims"], "reduce": rec["reduce"], "gname": rec["gname"], "flox_dims": rec["flox_dims"],
                "native_dims": rec["native_dims"], "same_coords": rec["same_coords"], "same_values": rec["same_values"], "same_attrs": rec["same_attrs"],
                "same_name": rec["same_name"], "core_ok": rec["core_ok"], "passthrough_ok": rec["passthrough_ok"], "predict": not rec["func"].startswith("quantile"), "dataset": bool(rec["dataset"])}
        owner[line["id"]] = brief
        lines.append(line)
        ctx.nontrivial(str(brief))
    if not lines:
        raise MachineryFailure("no xarray case produced a result")
    ctrl = dict(lines[0], id=-7, flox_dims=list(reversed(lines[0]["flox_dims"])) + ["q"], same_values=False, same_attrs=False)
    fails, stats = tlc.validate_trace("TraceXr", lines + [ctrl], tag="c15", shards=4)
    seen = False
    for f in fails:
        if f[1] == -7:
            seen = {"dims", "values", "attrs"} <= set(f[2])
            continue
        prop = sorted(set(f[2]) - {"drift"})
        if prop:
            ctx.violation(owner[f[1]], "xarray:" + "+".join(prop), {"flox_dims": lines[f[1]]["flox_dims"], "native_dims": lines[f[1]]["native_dims"]})
        else:
            ctx.drift.append(f"native dims differ from XrDims.tla: {owner[f[1]]['dims']} grouper={owner[f[1]]['grouper']} dim={owner[f[1]]['dim']} native={lines[f[1]]['native_dims']} predicted={f[3]}")
    if not seen:
        raise MachineryFailure("TraceXr control accepted")
    ctx.add_traces(len(lines), stats, name="TraceXr")
    ctx.sample(lines[0])
    ctx.sample({"case": owner[len(lines) // 2]})
    ctx.cov["rule"] = ("objects of 1-4 dims in every order x grouper {1-D coordinate, external 1-D, 2-D coordinate, external 2-D} x dim {default, ..., supersets} x 11 functions x "
                       "skipna {None,T,F} x data {NaN floats, floats, ints, bools} x chunked x DataArray|Dataset(with a variable lacking the dims) x keep_attrs x min_count")
    ctx.assumptions += ["native xarray (use_flox=False) is the oracle; the specification contributes the enumeration and the dims algebra"]


def replay(ctx, payload):
    case = {k: v for k, v in payload["case"].items() if k in ("dims", "grouper", "dim", "func", "skipna", "data", "chunked", "dataset", "keep_attrs", "min_count")}
    print(run_xr_case(case))
    return 0
