"""C18 — grouped order statistics = NumPy's linear-interpolation quantiles.

M  MC_Quantile: the transcribed index arithmetic of aggregate_flox.quantile_
   (valid counts, cumulative offsets, q*(n_valid-1), floor/ceil, lerp, NaN mask)
   equals Ref!Quantile for every small group configuration and rational q.
T  real calls (engines flox and numpy, scalar and vector q, skipna variants,
   leading batch dimension, eager and blockwise-chunked) validated by
   TraceReduce.tla; chunked inputs whose groups straddle blocks must be refused
   with ValueError/NotImplementedError.
"""
from __future__ import annotations

import numpy as np

from .. import gen, redcase, tlc
from ..common import MachineryFailure, harness_errors, pmap
from . import models, shared
from .c02 import confined

QS = [[0, 1], [1, 4], [1, 3], [1, 2], [9, 10], [1, 1]]
ALPHA = [gen.iv(-2), gen.iv(0), gen.iv(1), gen.iv(4), gen.NAN]


def run_quantile_case(case):
    """median / quantile with scalar or vector q, optional batch dim; one record per (q, batch row)"""
    import warnings

    import dask
    import dask.array as da

    from flox.core import groupby_reduce

    warnings.filterwarnings("ignore")
    dt = case.get("dtype", "f8")
    vals = redcase.concretize(case["vals"], dt)
    nb = case.get("batch", 0)
    array = np.stack([vals + 10 * b if False else np.roll(vals, 0) for b in range(nb)]) if nb else vals
    if nb:
        rows = [case["vals"]] + case["batch_rows"]
        array = np.stack([redcase.concretize(r, dt) for r in rows])
    by = redcase.label_array(case["codes"], case.get("label_kind", "int"))
    kw = dict(func=case["func"], engine=case.get("engine"))
    qs = case.get("qs")
    if case["func"] in ("quantile", "nanquantile"):
        qv = [q[0] / q[1] for q in qs]
        kw["finalize_kwargs"] = {"q": qv[0] if case.get("scalar_q") else qv}
    out = dict(case)
    try:
        if case.get("chunks") is not None:
            ch = ((array.shape[0],) if nb else ()) + (tuple(case["chunks"]),)
            arr = da.from_array(array, chunks=ch)
            r, g = groupby_reduce(arr, by, method=case.get("method"), **kw)
            out["lazy"] = hasattr(r, "dask")
            r, g = dask.compute(r, g, scheduler="synchronous")
        else:
            r, g = groupby_reduce(array, by, **kw)
        r = np.asarray(r)
        out["shape"] = list(r.shape)
        out["groups"] = redcase.label_tokens(g, case.get("label_kind", "int"))
        out["result"] = [redcase.pv_out(x, 1e-9) for x in r.reshape(-1)]
    except redcase.ProjectionError as e:
        out.update(exc="ProjectionError", msg=str(e))
    except Exception as e:  # noqa: BLE001
        out.update(exc=type(e).__name__, msg=str(e)[:200])
    return out


def build(vals, codes, func, engine, qsel, scalar_q, batch, mode, dtype="f8"):
    isq = func in ("quantile", "nanquantile")
    if dtype != "f8" and (any(v[1] != 1 for v in vals) or (dtype == "u1" and any(v[0] < 0 for v in vals))):
        return None
    if not isq and (qsel != 0 or not scalar_q):
        return None
    qs = [QS[qsel]] if scalar_q else [QS[(qsel + j) % len(QS)] for j in (0, 3, 1)]
    if engine == "numpy" and isq and not scalar_q:
        return None  # documented refusal
    c = {"func": func, "vals": vals, "codes": codes, "label_kind": "float" if min(codes) < 0 else "int", "engine": engine,
         "qs": qs if isq else [[1, 2]], "scalar_q": scalar_q or not isq, "batch": 0, "dtype": dtype}
    if batch:
        c["batch"] = 2
        c["batch_rows"] = [list(reversed(vals))]
    if mode != "eager":
        comps = gen.compositions(len(vals))
        c["chunks"] = comps[mode % len(comps)]
        c["method"] = "blockwise" if confined(codes, c["chunks"]) else None
        c["expect_refusal"] = not confined(codes, c["chunks"])
    return c


def run(ctx):
    models.quantile(ctx)
    pats = {3: [[0, 0, 0], [0, 1, 0], [1, 0, 0]], 4: [[0, 0, 0, 0], [0, 1, 0, 1], [1, 0, 0, 1], [0, -1, 0, 1], [2, 0, 2, 0]],
            5: [[0, 0, 0, 0, 0], [1, 0, 0, 1, 1], [2, 0, 1, 0, 2], [1, 1, 0, 0, 0]], 6: [[0, 1, 0, 1, 0, 1], [1, 1, 1, 0, 0, 0], [2, 0, 1, 0, 2, 1]]}
    spaces = [gen.Space(f"n{n}", {"vals": gen.seqs(ALPHA, n), "codes": pats[n], "func": ["median", "nanmedian", "quantile", "nanquantile"],
                                  "engine": [None, "flox", "numpy"], "qsel": range(len(QS)), "scalar_q": [True, False], "batch": [False, True],
                                  "mode": ["eager", "eager", 0, 1, 3, 6]}, build) for n in (3, 4, 5, 6)]
    # integer data (the interpolation weight must stay fractional): even-sized groups, general q
    spaces.append(gen.Space("int", {"vals": gen.seqs([gen.iv(-2), gen.iv(0), gen.iv(1), gen.iv(4), gen.iv(7)], 4), "codes": pats[4],
                                    "func": ["median", "nanmedian", "quantile", "nanquantile"], "engine": [None, "flox", "numpy"], "qsel": range(len(QS)),
                                    "scalar_q": [True, False], "batch": [False, True], "mode": ["eager", 0, 3], "dtype": ["i8", "i4", "u1"]}, build))
    budget = 16000 if ctx.tier == "quick" else 300000
    cases = []
    for sp in spaces:
        cases += sp.sample(ctx.rng, budget // len(spaces))
    ctx.cov["space"] = {sp.name: sp.size for sp in spaces}
    recs = pmap("harness.drivers.c18", "run_quantile_case", cases)
    errs = harness_errors(recs)
    if errs:
        raise MachineryFailure(f"{len(errs)} harness errors, first: {errs[0]['_harness_error']}\n{errs[0].get('_tb','')}")
    lines, owner = [], {}
    for rec in recs:
        ctx.cov["evaluations"] += 1
        if "exc" in rec:
            if rec["exc"] == "ProjectionError":
                raise MachineryFailure(f"projection: {rec['msg']} {rec}")
            if rec["exc"] in redcase.CLEAN_REFUSALS:
                ctx.cov["refused_cleanly"] = ctx.cov.get("refused_cleanly", 0) + 1
                if rec.get("chunks") is not None and not rec.get("expect_refusal"):
                    ctx.violation(rec, "refused-although-groups-are-confined", rec["msg"])
                continue
            ctx.violation(rec, f"exception:{rec['exc']}", rec["msg"])
            continue
        if rec.get("expect_refusal"):
            ctx.violation(rec, "computed-although-a-group-straddles-blocks", None)
            continue
        ng = len(rec["groups"])
        nrows = 2 if rec["batch"] else 1
        nq = 1 if rec["scalar_q"] else len(rec["qs"])
        want = ([] if rec["scalar_q"] else [nq]) + ([nrows] if rec["batch"] else []) + [ng]
        if rec["shape"] != want:
            ctx.violation(rec, "shape", {"want": want, "got": rec["shape"]})
            continue
        rows = [rec["vals"]] + (rec.get("batch_rows") or []) if rec["batch"] else [rec["vals"]]
        flat = rec["result"]
        for qi in range(nq):
            for ri in range(nrows):
                vals = flat[(qi * nrows + ri) * ng : (qi * nrows + ri + 1) * ng]
                r = {"func": rec["func"], "vals": rows[ri], "codes": rec["codes"], "q": rec["qs"][qi], "groups": rec["groups"], "out": vals,
                     "sort": True}
                line = redcase.tlc_record(r, len(lines))
                owner[line["id"]] = (rec, qi, ri)
                lines.append(line)
        if shared.case_nontrivial(rec):
            ctx.nontrivial(shared.case_key(rec, ("qs", "scalar_q", "batch")))
    if not lines:
        raise MachineryFailure("no quantile call produced a result")
    ctrl = dict(lines[0], id=-7, out=[[v[0] + 3 * max(v[1], 1), max(v[1], 1)] for v in lines[0]["out"]])
    fails, stats = tlc.validate_trace("TraceReduce", lines + [ctrl], tag="c18", shards=8)
    seen = False
    for f in fails:
        if f[1] == -7:
            seen = True
            continue
        rec, qi, ri = owner[f[1]]
        ctx.violation({**{k: v for k, v in rec.items() if k != "result"}, "q_index": qi, "row": ri}, "+".join(sorted(f[2])),
                      {"expected": f[3], "got": lines[f[1]]["out"], "groups": rec["groups"]})
    if not seen:
        raise MachineryFailure("binding control: corrupted quantile record accepted")
    ctx.add_traces(len(lines), stats, name="TraceReduce(quantiles)")
    ctx.sample({k: recs[0].get(k) for k in ("func", "engine", "vals", "codes", "qs", "scalar_q", "batch", "chunks", "result", "exc")})
    ctx.sample(lines[len(lines) // 2])
    ctx.cov["rule"] = ("(values over {-2,0,1,4,NaN} incl. all-NaN groups, unsorted interleaved labels, median|nanmedian|quantile|nanquantile, q in {0,1/4,1/3,1/2,9/10,1} "
                       "scalar or 3-vector, engines auto|flox|numpy, optional batch dim, eager or chunked); non-trivial = group with >=2 members or NaN")
    ctx.assumptions += ["infinities are excluded by the property; q*(n-1) is exact for the rational q used (projection tolerance 1e-9)"]


def replay(ctx, payload):
    case = {k: v for k, v in payload["case"].items() if k not in ("result", "groups", "shape", "exc", "msg", "q_index", "row", "lazy")}
    rec = run_quantile_case(case)
    print(rec)
    return 0
