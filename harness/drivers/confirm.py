"""Confirmation of design-level TLC counterexamples on the real code (DESIGN §8):
real flox shows it -> VIOLATION; real flox does not -> the model misrepresents
the code -> machinery failure."""
from __future__ import annotations

from .. import redcase, tlc
from ..common import MachineryFailure


def confirm_pipeline_counterexample(ctx, res, rows):
    st = res.error_trace[-1] if res.error_trace else None
    if not st or "vals" not in st:
        raise MachineryFailure(f"MC_Pipeline violated {res.violated} but the counterexample could not be parsed:\n{res.out[-2000:]}")
    row = rows[st["row"] - 1]
    vals, codes, cuts = st["vals"], st["codes"], st["cuts"]
    chunks, n = [], 0
    for i, c in enumerate(cuts):
        n += 1
        if c or i == len(cuts) - 1:
            chunks.append(n)
            n = 0
    mode = st["mode"]
    nlab = max([c for c in codes if c >= 0] + [0]) + 1
    case = {
        "func": row["name"], "vals": vals, "dtype": {"f8": "f8", "i8": "i8", "b1": "b1"}[row["dtype"]],
        "codes": codes, "label_kind": "float" if min(codes) < 0 else "range", "chunks": chunks, "method": "map-reduce",
        "reindex": bool(mode["rb"]) if mode["simple"] else False, "split_every": st["se"],
        "req": list(range(nlab)), "fill": [0, 0] if row["userFill"]["some"] else None,
        "min_count": row["minCount"] if (row["userFill"]["some"] and row["minCount"] > 0 and row["name"] not in ("nanmax", "nanmin")) else None,
        "ddof": row["ddof"] if row["finalize"] in ("var", "std") else None,
    }
    rec = redcase.run_reduce_case(case)
    detail = {"tlc_invariant": res.violated, "model_state": {k: st[k] for k in ("vals", "codes", "cuts", "mode", "se", "result") if k in st}}
    if "exc" in rec:
        ctx.violation(rec, f"design-counterexample+exception:{rec['exc']}", detail)
        return
    fails, _ = tlc.validate_trace("TraceReduce", [redcase.tlc_record(rec, 0, check_groups=False)], tag="confirm", shards=1)
    if fails:
        ctx.violation(rec, "design-counterexample-confirmed:" + "+".join(sorted(fails[0][2])), detail)
    else:
        raise MachineryFailure(
            f"MC_Pipeline reports {res.violated} for blueprint {row['name']} but real flox computes the reference answer on that input: "
            f"the model misrepresents the code. state={detail['model_state']} real={rec.get('out')}")
