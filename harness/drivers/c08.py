"""C08 — partial-axis reductions and leading (batch) dimensions are independent
slices.

M  MC_Factorize!OffsetsOk (per-slice offsets never make two slices share a code,
   -1 preserved) and the 1-D models (each slice is a 1-D problem).
T  real calls on arrays of 1-4 dimensions with label arrays of 1-3 dimensions and
   every non-empty subset of the label dimensions as `axis` (any order, any sign),
   missing labels distributed unevenly, eager and chunked along any axis: the
   result is cut into its kept-index slices and EVERY slice is validated as a 1-D
   grouped reduction by TraceReduce.tla; the shape (kept dims in place, group axis
   last) is checked first.
"""
from __future__ import annotations

import itertools
import warnings

import numpy as np

from .. import gen, redcase, tlc
from ..common import MachineryFailure, harness_errors, pmap
from ..project import ProjectionError, pv
from . import models, shared

FUNCS = ["sum", "nansum", "count", "nanmean", "max", "nanmin", "nanvar", "argmax", "nanargmin", "nanfirst", "nanlast", "prod", "mean"]
SHAPES = [((6,), 1), ((2, 3), 1), ((2, 3), 2), ((3, 2), 2), ((2, 2, 2), 1), ((2, 2, 2), 2), ((2, 2, 2), 3), ((2, 1, 3), 2), ((2, 2, 1, 2), 3), ((2, 2, 2, 2), 2)]
ALPHA = [gen.iv(-2), gen.iv(1), gen.NAN, gen.iv(3), gen.iv(0), gen.iv(7), gen.iv(-1)]
NLAB = 3


def make_arrays(case):
    shape = tuple(case["shape"])
    n = int(np.prod(shape))
    vals = [ALPHA[(case["vsel"] + 3 * i + (i // 4)) % len(ALPHA)] for i in range(n)]
    b = case["bndim"]
    bshape = shape[-b:]
    nb = int(np.prod(bshape))
    codes = [((case["lsel"] * 2 + i * (1 + case["lsel"] % 3) + (i // 3)) % (NLAB + 1)) - 1 for i in range(nb)]  # -1 = missing
    return vals, codes, bshape


def run_axis_case(case):
    import dask
    import dask.array as da

    from flox.core import groupby_reduce

    warnings.filterwarnings("ignore")
    shape = tuple(case["shape"])
    vals, codes, bshape = make_arrays(case)
    array = redcase.concretize(vals, "f8").reshape(shape)
    by = redcase.label_array(codes, "float").reshape(bshape)
    exp = np.array([redcase.LABELS["float"][t] for t in range(NLAB)])
    kw = dict(func=case["func"], axis=tuple(case["axis"]) if len(case["axis"]) > 1 else case["axis"][0],
              fill_value=redcase.fill_concrete(case["fill"]))
    slots = list(range(NLAB))
    if case.get("with_expected", True):
        kw["expected_groups"] = exp
    else:
        slots = sorted({c for c in codes if c >= 0})      # nothing requested: one slot per label present anywhere
    if case.get("engine"):
        kw["engine"] = case["engine"]
    out = dict(case)
    out["vals"], out["codes"] = vals, codes
    try:
        if case.get("chunked"):
            ch = tuple(1 if (case["chunked"] >> ax) & 1 else shape[ax] for ax in range(len(shape)))
            arr = da.from_array(array, chunks=ch)
            byy = da.from_array(by, chunks=ch[-len(bshape):]) if case.get("by_dask") else by
            r, g = groupby_reduce(arr, byy, method=case.get("method"), **kw)
            out["lazy"] = hasattr(r, "dask")
            out["announced_shape"] = list(r.shape)
            r, g = dask.compute(r, g, scheduler="synchronous")
        else:
            r, g = groupby_reduce(array, by, **kw)
        r = np.asarray(r)
        out["rshape"] = list(r.shape)
        a = len(shape)
        red = sorted({ax % a for ax in case["axis"]})
        kept = [ax for ax in range(a) if ax not in red]
        want = [shape[ax] for ax in kept] + [len(slots)]
        out["slots"] = slots
        out["want_shape"] = want
        slices = []
        if list(r.shape) == want:
            bfull = np.broadcast_to(np.asarray(codes).reshape(bshape), shape)
            varr = np.empty(len(vals), dtype=object)
            varr[:] = vals
            varr = varr.reshape(shape)
            for idx in itertools.product(*[range(shape[ax]) for ax in kept]):
                sl = [slice(None)] * a
                for ax, i in zip(kept, idx):
                    sl[ax] = i
                sv = [list(v) for v in varr[tuple(sl)].reshape(-1)]
                sc = [int(c) for c in bfull[tuple(sl)].reshape(-1)]
                ov = [redcase.pv_out(x, 1e-9) for x in r[idx].reshape(-1)]
                slices.append({"idx": list(idx), "vals": sv, "codes": sc, "out": ov})
        out["slices"] = slices
    except ProjectionError as e:
        out.update(exc="ProjectionError", msg=str(e))
    except Exception as e:  # noqa: BLE001
        out.update(exc=type(e).__name__, msg=str(e)[:200])
    return out


def build(shape_b, axis_sel, order, sign, func, vsel, lsel, fillsel, mode, engine, with_expected=True):
    shape, b = shape_b
    a = len(shape)
    bdims = list(range(a - b, a))
    subsets = [s for r in range(1, b + 1) for s in itertools.combinations(bdims, r)]
    axis = list(subsets[axis_sel % len(subsets)])
    if order:
        axis = axis[::-1]
    if sign:
        axis = [ax - a for ax in axis]
    nax = len(axis)
    if func in redcase.ARG_FUNCS | {"nanfirst", "nanlast"} and nax != 1:
        return None
    if engine == "flox" and func in redcase.ARG_FUNCS:
        return None
    c = {"func": func, "shape": list(shape), "bndim": b, "axis": axis, "vsel": vsel, "lsel": lsel,
         "fill": [[0, 0], [-1, 1]][fillsel] if func not in redcase.ARG_FUNCS else [-1, 1], "engine": engine, "with_expected": with_expected}
    if mode != "eager":
        chunked, method, by_dask = mode
        c["chunked"] = chunked % (2 ** a) or 1
        c["method"] = method
        c["by_dask"] = by_dask
        if method in ("cohorts", "blockwise") and nax != b:
            return None
        if method == "blockwise":
            return None
        if by_dask and method == "cohorts":
            return None
        if by_dask and not with_expected:
            return None
    return c


def space(modes=None):
    if modes is None:
        modes = ["eager", "eager"] + [(ch, m, d) for ch in (1, 2, 3, 5, 7, 15) for m in (None, "map-reduce", "cohorts") for d in (False, True)]
    return gen.Space("axes", {"shape_b": SHAPES, "axis_sel": range(7), "order": [False, True], "sign": [False, True], "func": FUNCS, "vsel": range(4),
                              "lsel": range(5), "fillsel": range(2), "mode": modes, "engine": [None, "numpy", "flox"],
                              "with_expected": [True, False]}, build)


def nd_cohort_cases(rng, n):
    """chunked N-D arrays with N-D labels reduced over ALL label axes under the cohorts strategy / the automatic choice
    (used by C02 and C09 too: cohorts over an N-D chunk grid)"""
    sp = space([(ch, m, False) for ch in (3, 5, 6, 7, 15) for m in (None, "cohorts")])
    return [c for c in sp.sample(rng, 4 * n) if len(c["axis"]) == c["bndim"] and c["bndim"] >= 2][:n]


def run(ctx):
    models.factorize(ctx)
    sp = space()
    budget = 5000 if ctx.tier == "quick" else 120000
    cases = sp.sample(ctx.rng, budget)
    ctx.cov["space"] = {"axes": sp.size}
    validate_axis_cases(ctx, cases, "c08")
    ctx.cov["rule"] = ("(array shapes of 1-4 dims with extents <= 3, label arrays of 1-3 dims, every non-empty subset of label dims as axis in both orders and signs, "
                       "missing labels spread unevenly, 13 reductions, eager | chunked along any subset of axes x method x numpy|dask labels); every kept-index slice is one record")
    ctx.assumptions += ["arg-reductions and first/last only with a single reduced axis (the only case flox accepts for chunked input)"]


def validate_axis_cases(ctx, cases, tag):
    recs = pmap("harness.drivers.c08", "run_axis_case", cases)
    errs = harness_errors(recs)
    if errs:
        raise MachineryFailure(f"{len(errs)} harness errors, first: {errs[0]['_harness_error']}\n{errs[0].get('_tb','')}")
    lines, owner = [], {}
    for rec in recs:
        ctx.cov["evaluations"] += 1
        brief = {k: rec.get(k) for k in ("func", "shape", "bndim", "axis", "vsel", "lsel", "fill", "engine", "chunked", "method", "by_dask", "with_expected", "exc", "msg")}
        if "exc" in rec:
            if rec["exc"] == "ProjectionError":
                raise MachineryFailure(f"projection: {rec['msg']}")
            if rec["exc"] in redcase.CLEAN_REFUSALS:
                ctx.cov["refused_cleanly"] = ctx.cov.get("refused_cleanly", 0) + 1
                continue
            ctx.violation(brief, f"exception:{rec['exc']}", rec["msg"])
            continue
        if rec["rshape"] != rec["want_shape"] or (rec.get("announced_shape") not in (None, rec["rshape"])):
            ctx.violation(brief, "shape", {"want": rec["want_shape"], "got": rec["rshape"], "announced": rec.get("announced_shape")})
            continue
        for s in rec["slices"]:
            r = {"func": rec["func"], "vals": s["vals"], "codes": s["codes"], "req": rec["slots"], "fill": rec["fill"], "groups": rec["slots"],
                 "out": s["out"], "sort": True, "ddof": 0}
            line = redcase.tlc_record(r, len(lines))
            owner[line["id"]] = (brief, s)
            lines.append(line)
        ctx.nontrivial(str(brief))
    if not lines:
        raise MachineryFailure("no call produced a result")
    ctrl = dict(lines[0], id=-7, out=[[v[0] + 3 * max(v[1], 1), max(v[1], 1)] for v in lines[0]["out"]])
    fails, stats = tlc.validate_trace("TraceReduce", lines + [ctrl], tag=tag, shards=8)
    seen = False
    for f in fails:
        if f[1] == -7:
            seen = True
            continue
        brief, s = owner[f[1]]
        ctx.violation({**brief, "slice": s["idx"], "vals": s["vals"], "codes": s["codes"]}, "slice:" + "+".join(sorted(f[2])), {"expected": f[3], "got": s["out"]})
    if not seen:
        raise MachineryFailure("binding control: corrupted slice record accepted")
    ctx.add_traces(len(lines), stats, name=f"TraceReduce(slices of N-D results, {tag})")
    ctx.sample({"call": owner[0][0], "slice": owner[0][1]})


def replay(ctx, payload):
    case = {k: v for k, v in payload["case"].items() if k in ("func", "shape", "bndim", "axis", "vsel", "lsel", "fill", "engine", "chunked", "method", "by_dask", "with_expected")}
    rec = run_axis_case(case)
    print({k: v for k, v in rec.items() if k not in ("slices",)})
    return 0
