"""CLI of the checks:  ./check C07 [--tier quick|thorough] [--replay path]

exit 0  property held on everything explored (KNOWN-FINDING lines allowed)
exit 1  VIOLATION property=<id> replay=<path>
exit 2  machinery failure (never an alarm about flox)
"""
from __future__ import annotations

import argparse
import importlib
import json
import os
import sys
import traceback


def main(argv=None) -> int:
    ap = argparse.ArgumentParser()
    ap.add_argument("prop")
    ap.add_argument("--tier", default=os.environ.get("VERIF_TIER", "quick"), choices=["quick", "thorough"])
    ap.add_argument("--replay", default=None)
    ap.add_argument("--seed", type=int, default=int(os.environ.get("VERIF_SEED", "0") or 0))
    args = ap.parse_args(argv)
    prop = args.prop.upper()

    from harness import common, tlc

    try:
        mod = importlib.import_module(f"harness.drivers.{prop.lower()}")
    except ModuleNotFoundError as e:
        print(f"MACHINERY-FAILURE no driver for {prop}: {e}")
        return 2
    ctx = common.Ctx(prop, args.tier, args.seed)
    try:
        if args.replay:
            case = json.load(open(args.replay))
            return mod.replay(ctx, case)
        mod.run(ctx)
        return ctx.finish()
    except (common.MachineryFailure, tlc.MachineryFailure) as e:
        print(f"MACHINERY-FAILURE property={prop}: {e}")
        return 2
    except Exception:
        traceback.print_exc()
        print(f"MACHINERY-FAILURE property={prop}: unexpected exception in the harness")
        return 2


if __name__ == "__main__":
    sys.exit(main())
