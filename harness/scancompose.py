"""spec -> code for the composed scan specification spec/FloxScan.tla.

TLC (-simulate) walks FloxScan.tla: input -> Call -> Validate -> (refused | pass-through |
single-member shortcut | eager scan | the tasks of the chunked cumreduction graph in ANY
order and ANY bracketing of the block states) -> Finalize, and prints every finished
behaviour (`Emit`).  Each behaviour is replayed into the real flox.groupby_scan:
  scan:refusal   spec says refused(kind) <=> the call raises that clean error, at call or compute time     (C10 / C19)
  scan:shape     the result has the input's length                                                         (C10)
  scan:result    every position whose label is not missing equals the specification's value                (C10)
  scan:lazy      the result is lazy exactly when the array is chunked, and no chunk is computed meanwhile  (C12)
  scan:input     the caller's array and labels are unchanged after the call                                (C13/C14)
"""
from __future__ import annotations

import json
import os
import re
import subprocess
import tempfile

from . import tlaval
from .tlc import JAR

CFG = """SPECIFICATION Spec
CHECK_DEADLOCK FALSE
CONSTANTS MaxLen = {maxlen}
MinLen = {minlen}
NLabels = {nlabels}
Wide = {wide}
Funcs = {{{funcs}}}
Dtypes = {{{dtypes}}}
ArrDasks = {{{arrdasks}}}
ByDasks = {{{bydasks}}}
ArgSets = {{{argsets}}}
"""
INVS = "INVARIANT Inv_ScanResult\nINVARIANT Inv_TreeIndependent\nINVARIANT Inv_NoLeak\nINVARIANT Inv_CleanRefusal\n"
DT = {"f8": "f8", "i8": "i8", "b1": "bool"}


def _q(xs):
    return ", ".join(json.dumps(x) for x in xs)


def _b(xs):
    return ", ".join(sorted({"TRUE" if b else "FALSE" for b in xs}))


def cfg_text(*, maxlen, minlen=1, nlabels=3, wide=True, funcs=("nancumsum", "ffill", "bfill"), dtypes=("f8", "i8", "b1"),
             arrdasks=(True, False), bydasks=(False, True), argsets=("none", "engine", "method", "expected", "engine+method")):
    return CFG.format(maxlen=maxlen, minlen=minlen, nlabels=nlabels, wide="TRUE" if wide else "FALSE", funcs=_q(funcs), dtypes=_q(dtypes),
                      arrdasks=_b(arrdasks), bydasks=_b(bydasks), argsets=_q(argsets))


def _workdir(td):
    import shutil
    from pathlib import Path

    for f in Path("/verif/spec").glob("*.tla"):
        shutil.copy(f, os.path.join(td, f.name))


def simulate(n: int, seed: int, *, timeout=900, **kw) -> tuple[list, dict]:
    """n behaviours of FloxScan.tla (one TLC -simulate run, single worker: PrintT lines stay whole)"""
    maxlen = kw["maxlen"]
    cfg = cfg_text(**kw) + "INVARIANT Emit\n" + INVS
    os.makedirs("/verif/out/work", exist_ok=True)
    depth = maxlen + 6 + 3 * maxlen + maxlen * maxlen
    with tempfile.TemporaryDirectory(prefix="floxscan-sim-", dir="/verif/out/work") as td:
        _workdir(td)
        open(os.path.join(td, "FloxScan.cfg"), "w").write(cfg)
        cmd = ["java", "-Xmx1500m", "-XX:+UseParallelGC", "-cp", JAR, "tlc2.TLC", "-workers", "1", "-metadir", os.path.join(td, "m"),
               "-noGenerateSpecTE", "-config", "FloxScan.cfg", "-simulate", f"num={n}", "-depth", str(depth), "-seed", str(seed), "FloxScan.tla"]
        try:
            p = subprocess.run(cmd, cwd=td, stdout=subprocess.PIPE, stderr=subprocess.STDOUT, text=True, timeout=timeout)
            out = p.stdout
        except subprocess.TimeoutExpired as e:
            out = e.stdout.decode() if isinstance(e.stdout, bytes) else (e.stdout or "")
    info = {"violated": None, "states": 0, "tail": out[-1500:]}
    m = re.search(r"Invariant (\w+) is violated", out)
    if m:
        info["violated"] = m.group(1)
        from .tlc import parse_error_trace

        tr = parse_error_trace(out)
        info["state"] = tr[-1] if tr else None
    m = re.search(r"(\d+) states checked", out)
    if m:
        info["states"] = int(m.group(1))
    behs = []
    for mm in re.finditer(r'<<\s*"SBEH"', out):
        v, _ = tlaval.parse_prefix(out, mm.start())
        _, vals, labs, cuts, cfgv, plan, outv, lazy = v
        behs.append({"vals": [list(x) for x in vals], "labs": list(labs), "cuts": list(cuts), "cfg": cfgv, "plan": plan,
                     "out": [list(x) for x in outv], "lazy": bool(lazy)})
    return behs, info


def chunks_of(cuts):
    out, run = [], 0
    for i, c in enumerate(cuts):
        run += 1
        if c or i == len(cuts) - 1:
            out.append(run)
            run = 0
    return out


def case_of(beh):
    cfg = beh["cfg"]
    return {"func": cfg["func"], "vals": beh["vals"], "dtype": DT[cfg["dtype"]], "codes": beh["labs"],
            "chunks": chunks_of(beh["cuts"]) if cfg["arrDask"] else None, "by_dask": bool(cfg["byDask"]), "args": cfg["args"]}


def run_scan_compose_case(beh: dict) -> dict:
    import warnings

    import dask
    import dask.array as da
    import numpy as np
    from dask.callbacks import Callback

    from flox.core import groupby_scan

    from .project import ProjectionError, pv_out
    from .redcase import concretize, label_array

    warnings.filterwarnings("ignore")
    case = case_of(beh)
    spec = beh["plan"]
    fails, drift = [], []
    array0 = concretize(case["vals"], case["dtype"])
    by0 = label_array(case["codes"], "float")
    array_np, by_np = array0.copy(), by0.copy()
    array, by = array_np, by_np
    if case["chunks"] is not None:
        array = da.from_array(array_np, chunks=(tuple(case["chunks"]),))
    if case["by_dask"]:
        bych = (tuple(case["chunks"]),) if case["chunks"] is not None else (len(by_np),)
        by = da.from_array(by_np, chunks=bych)
    kw = {}
    if case["args"] in ("engine", "engine+method"):
        kw["engine"] = "numpy"
    if case["args"] in ("method", "engine+method"):
        kw["method"] = "blockwise"
    if case["args"] == "expected":
        kw["expected_groups"] = np.array([10.0, 11.0, 12.0])
    computed = []

    class Spy(Callback):
        def _pretask(self, key, dsk, state):
            computed.append(key)

    got = {}
    res = None
    try:
        with Spy(), dask.config.set(scheduler="synchronous"):
            res = groupby_scan(array, by, func=case["func"], axis=-1, **kw)
        got["lazy"] = bool(hasattr(res, "dask"))
        got["computed_while_building"] = len(computed)
        if got["lazy"]:
            got["announced"] = [str(res.dtype), list(res.shape)]
            with dask.config.set(scheduler="synchronous"):
                res = res.compute()
        res = np.asarray(res)
        got["dtype"] = str(res.dtype)
        got["out"] = [pv_out(x, 1e-9) for x in res.reshape(-1)]
    except ProjectionError as e:
        got.update(exc="ProjectionError", msg=str(e))
    except Exception as e:  # noqa: BLE001
        got.update(exc=type(e).__name__, msg=str(e)[:300], at="compute" if "lazy" in got else "call")
    out = {"case": case, "spec": {"plan": spec, "out": beh["out"], "lazy": beh["lazy"]}, "got": got}
    labs = case["codes"]
    out["nontrivial"] = spec["kind"] == "ok" and spec["path"] in ("eager", "chunked") and (case["chunks"] is None or len(case["chunks"]) > 1)
    # the caller's arrays are untouched (NaN-aware comparison)
    if not (np.array_equal(array_np, array0, equal_nan=array0.dtype.kind == "f") and np.array_equal(by_np, by0, equal_nan=True)):
        fails.append(("scan:input", "the caller's array or labels were modified by the call"))
    if "exc" in got:
        if got["exc"] == "ProjectionError":
            out.update(fails=fails, drift=drift, machinery=got["msg"])
            return out
        if spec["kind"] == "ok":
            fails.append(("scan:refusal", f"the specification says the call returns ({spec['path']}) but it raised {got['exc']}: {got.get('msg')}"))
        elif got["exc"] != spec["kind"]:
            fails.append(("scan:refusal", f"raised {got['exc']} ({got.get('msg')}) where the specification says {spec['kind']}"))
        out.update(fails=fails, drift=drift)
        return out
    if spec["kind"] != "ok":
        fails.append(("scan:refusal", f"the specification refuses ({spec['kind']}) but the call returned {got.get('out')}"))
        out.update(fails=fails, drift=drift)
        return out
    if got["lazy"] != beh["lazy"]:
        fails.append(("scan:lazy", f"lazy={got['lazy']} where the specification says {beh['lazy']}"))
    if got["computed_while_building"]:
        fails.append(("scan:lazy", f"{got['computed_while_building']} task(s) executed while the graph was being built"))
    if got.get("announced") and (got["announced"][0] != got["dtype"] or got["announced"][1] != [len(labs)]):
        fails.append(("scan:announced", f"lazy result announced {got['announced']} but computed dtype {got['dtype']} of length {len(got['out'])}"))
    if len(got["out"]) != len(beh["out"]):
        fails.append(("scan:shape", f"{len(got['out'])} positions where the input has {len(beh['out'])}"))
    else:
        for i, (exp, g) in enumerate(zip(beh["out"], got["out"])):
            if labs[i] < 0:
                continue            # positions whose label is missing are unspecified
            if list(exp) != list(g):
                fails.append(("scan:result", {"msg": f"position {i} (label {labs[i]}): {g} where the specification says {exp}",
                                              "expected": [list(x) for x in beh["out"]], "got": [list(x) for x in got["out"]]}))
                break
    out.update(fails=fails, drift=drift)
    return out
