"""Named semantic matchers for known_findings.txt.  A matcher recognises a
*class* of failing cases (never an individual input), so a larger instance of a
listed class is recognised while any other failure of the same property is
still a VIOLATION."""
from __future__ import annotations


def _groups(case):
    out = {}
    for v, c in zip(case.get("vals", []), case.get("codes", [])):
        if c >= 0:
            out.setdefault(c, []).append(v)
    return out


def _isnan(v):
    return v[1] == 0 and v[0] == 0


def numba_minmax_ignores_nan(case, clause, detail):
    """engine='numba' (numpy_groupies' numba backend): max/min skip NaN instead of propagating it"""
    if case.get("engine") != "numba" or case.get("func") not in ("max", "min") or "values" not in clause:
        return False
    return any(any(_isnan(v) for v in m) and not all(_isnan(v) for v in m) for m in _groups(case).values())


def blockwise_with_dask_labels(case, clause, detail):
    """method='blockwise' with chunked (dask) labels: internal TypeError/ValueError instead of a result or a clean refusal"""
    return case.get("method") == "blockwise" and bool(case.get("by_dask")) and clause.startswith("exception:")


MATCHERS = {
    "blockwise_with_dask_labels": blockwise_with_dask_labels,
    "numba_minmax_ignores_nan": numba_minmax_ignores_nan,
}
