"""Named semantic matchers for known_findings.txt.  A matcher recognises a
*class* of failing cases (never an individual input), so a larger instance of a
listed class is recognised while any other failure of the same property is
still a VIOLATION."""
from __future__ import annotations


def _groups(case):
    out = {}
    for v, c in zip(case.get("vals", []), case.get("codes", [])):
        if c >= 0:
            out.setdefault(c, []).append(v)
    return out


def _isnan(v):
    return v[1] == 0 and v[0] == 0


def numba_minmax_ignores_nan(case, clause, detail):
    """engine='numba' (numpy_groupies' numba backend): max/min skip NaN instead of propagating it"""
    if case.get("engine") != "numba" or case.get("func") not in ("max", "min") or "values" not in clause:
        return False
    return any(any(_isnan(v) for v in m) and not all(_isnan(v) for v in m) for m in _groups(case).values())


def blockwise_with_dask_labels(case, clause, detail):
    """method='blockwise' with chunked (dask) labels: internal TypeError/ValueError instead of a result or a clean refusal"""
    return case.get("method") == "blockwise" and bool(case.get("by_dask")) and clause.startswith("exception:")


def _bad_slots(detail):
    exp, got = detail.get("expected") or [], detail.get("got") or []
    return [k for k in range(min(len(exp), len(got))) if exp[k][1] >= 0 and exp[k] != got[k]]


def explicit_min_count_zero_absent_label(case, clause, detail):
    """min_count=0 given explicitly together with a fill_value: a requested label that never occurs gets the
    reduction's identity / NaN / the intermediate sentinel instead of the user's fill (count-based masking cannot
    tell an absent label from an all-NaN group)"""
    if case.get("min_count") != 0 or case.get("fill") is None or case.get("req") is None or "values" not in clause:
        return False
    if not isinstance(detail, dict) or len(detail.get("expected") or []) != len(detail.get("got") or []):
        return False
    present = {c for c in case["codes"] if c >= 0}
    groups = detail.get("groups") or []
    bad = _bad_slots(detail)
    return bool(bad) and all(groups[k] not in present for k in bad)


def min_count_zero_nanminmax_allnan(case, clause, detail):
    """explicit min_count=0 with nanmin/nanmax: a present group whose members are all NaN receives the user's
    fill although no group has fewer than 0 valid members (flox silently raises min_count to 1 for these two)"""
    if case.get("min_count") != 0 or case.get("func") not in ("nanmax", "nanmin") or "values" not in clause:
        return False
    if not isinstance(detail, dict) or len(detail.get("expected") or []) != len(detail.get("got") or []):
        return False
    groups = detail.get("groups") or []
    members = _groups(case)
    present = {c for c in case["codes"] if c >= 0}
    bad = _bad_slots(detail)

    def ok(k):
        g = groups[k]
        if g not in present:   # absent label: the other finding of this family
            return True
        m = members.get(g, [])
        return bool(m) and all(_isnan(v) for v in m)

    return bool(bad) and all(ok(k) for k in bad)


def plan_blockwise_with_dask_labels(case, clause, detail):
    """C19 cell records: the only unclean outcome is under method='blockwise' with chunked (dask) labels"""
    if "clean" not in clause or not case.get("bydask"):
        return False
    bad = [o for o in case.get("outcomes", []) if o["kind"] not in ("ok", "ValueError", "NotImplementedError", "ImportError")]
    return bool(bad) and all(o["method"] == "blockwise" for o in bad) and clause == "plan:clean"


def datetime_firstlast_nan_fill(case, clause, detail):
    """first/last/nanfirst/nanlast of datetime64/timedelta64 data with fill_value=NaN: numpy refuses to promote
    datetime with a float NaN (DTypePromotionError, a TypeError) instead of the result holding NaT"""
    return (case.get("indtype") in ("M8", "m8") and case.get("func") in ("first", "last", "nanfirst", "nanlast")
            and case.get("fill") == "nan" and clause == "exception:DTypePromotionError")


def dataset_var_without_group_dim(case, clause, detail):
    """xarray_reduce on a Dataset whose variables have different dimensions: every variable is broadcast against all the others
    before reducing, so a variable that LACKS one of the reduced dimensions is reduced with the multiplicity of that dimension
    (group sizes, or the length of a dimension only another variable has), whereas native xarray reduces each variable over the
    dimensions it has"""
    if not case.get("dataset") or clause != "xarray:values" or not case.get("bad_vars"):
        return False
    if case.get("bad_dim_vars"):
        return False        # the known finding is about values (multiplicities); the variables' dimensions agree with native's
    eff = set(case.get("eff_reduce") or [])
    vd = case.get("var_dims") or {}
    return all(k in vd and (eff - set(vd[k])) for k in case["bad_vars"])


def dataset_2d_grouper_dim_order(case, clause, detail):
    """xarray_reduce on a Dataset with a 2-D grouper puts the group dimension last; native xarray puts it first for Datasets"""
    return bool(case.get("dataset")) and str(case.get("grouper", "")).endswith("2d") and clause == "xarray:dims"


def dim_without_grouper_dims(case, clause, detail):
    """xarray_reduce with `dim=` naming only dimensions the grouper does NOT have (a plain reduction inside every group):
    values agree with native xarray, but the dimension order (Dataset: grouped dimension first) and the coordinates kept
    for external groupers differ from native's"""
    dim, gd = case.get("dim"), case.get("gdims") or []
    if not isinstance(dim, list) or set(dim) & set(gd):
        return False
    parts = set(str(clause).replace("xarray:", "").split("+"))
    return bool(parts) and parts <= {"dims", "coords"}


def uint64_min_numba_chunked(case, clause, detail):
    """min/nanmin of uint64 data on chunked input with engine='numba': the intermediate fill iinfo(uint64).max cannot be
    converted by the numba kernels of numpy_groupies (OverflowError 'int too big to convert')"""
    return (case.get("indtype") == "u8" and case.get("func") in ("min", "nanmin") and case.get("engine") == "numba"
            and case.get("path") not in (None, "eager") and clause == "exception:OverflowError")


def nancumsum_infinite_data(case, clause, detail):
    """nancumsum of data holding +-inf.  Two mechanisms, both only reachable with an infinity in the data: (1) the in-block
    kernel (numpy_groupies cumsum: ONE cumulative sum over the label-sorted data minus the running total at each group's
    start) computes inf - inf = NaN for every later position of the block, also in OTHER groups; (2) the state carried
    between blocks is the nan-LAST value (AlignedArrays.last), so a running sum that legitimately became NaN (inf + -inf)
    is dropped and later blocks continue from the older state.  Finite data are never matched."""
    if case.get("func") != "nancumsum" or clause not in ("scan:result", "values"):
        return False
    return any(v[1] == 0 and v[0] != 0 for v in case.get("vals", []))


MATCHERS = {
    "nancumsum_infinite_data": nancumsum_infinite_data,
    "dim_without_grouper_dims": dim_without_grouper_dims,
    "uint64_min_numba_chunked": uint64_min_numba_chunked,
    "dataset_var_without_group_dim": dataset_var_without_group_dim,
    "dataset_2d_grouper_dim_order": dataset_2d_grouper_dim_order,
    "datetime_firstlast_nan_fill": datetime_firstlast_nan_fill,
    "plan_blockwise_with_dask_labels": plan_blockwise_with_dask_labels,
    "min_count_zero_nanminmax_allnan": min_count_zero_nanminmax_allnan,
    "explicit_min_count_zero_absent_label": explicit_min_count_zero_absent_label,
    "blockwise_with_dask_labels": blockwise_with_dask_labels,
    "numba_minmax_ignores_nan": numba_minmax_ignores_nan,
}
