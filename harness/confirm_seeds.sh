#!/bin/sh
# Full confirmation of every seeded change in a scratch worktree (never in /repo):
#   the patch applies, the unedited suite still passes (harness/baseline.py --repo), demo.py fails with it and passes without it.
wt=/tmp/wt/suite
git -C /repo worktree remove --force $wt 2>/dev/null
git -C /repo worktree add -q --detach $wt HEAD || exit 2
out=/verif/seeded/SUITE.md
echo "# Full-suite confirmation of the seeded changes (scratch worktree at /repo HEAD $(git -C /repo log --format=%h -1))" > $out
echo "" >> $out
echo "| seed | applies | demo with patch | demo without | suite (stable_pass regressions) |" >> $out
echo "|---|---|---|---|---|" >> $out
for d in /verif/seeded/c*; do
  n=$(basename $d)
  git -C $wt checkout -q -- . 
  if git -C $wt apply $d/patch.diff 2>/dev/null; then ap=yes; else echo "| $n | NO | - | - | - |" >> $out; continue; fi
  (cd $wt && DASK_NUM_WORKERS=2 OMP_NUM_THREADS=1 NUMBA_NUM_THREADS=1 PYTHONPATH=$wt timeout 600 /venv/bin/python $d/demo.py >/dev/null 2>&1); dw=$?
  suite=$(DASK_NUM_WORKERS=2 OMP_NUM_THREADS=1 NUMBA_NUM_THREADS=1 /venv/bin/python /verif/harness/baseline.py --repo $wt --jobs 12 2>&1 | grep "^baseline:" | sed 's/baseline: //')
  git -C $wt checkout -q -- .
  (cd $wt && DASK_NUM_WORKERS=2 OMP_NUM_THREADS=1 NUMBA_NUM_THREADS=1 PYTHONPATH=$wt timeout 600 /venv/bin/python $d/demo.py >/dev/null 2>&1); dn=$?
  echo "| $n | $ap | exit $dw | exit $dn | $suite |" >> $out
done
git -C /repo worktree remove --force $wt
cat $out
