#!/bin/sh
# seed_sweep.sh : apply every seeded change to /repo in turn, run the quick checks named in its meta.json
# (verified_by_coordinator.caught_by), undo it, and write seeded/SWEEP.md.  Nothing else may use /repo meanwhile.
cd /verif || exit 2
if [ -n "$(git -C /repo status --porcelain)" ]; then echo "/repo is not clean"; exit 2; fi
out=seeded/SWEEP.md
echo "# Every seeded change against the checks that are to catch it (quick tier, /repo HEAD $(git -C /repo log --format=%h -1))" > $out
echo "" >> $out
echo "| seed | check | exit | violations | first alarm |" >> $out
echo "|---|---|---|---|---|" >> $out
for d in seeded/c*; do
  n=$(basename $d)
  checks=$(/venv/bin/python -c "import json;print(' '.join(json.load(open('$d/meta.json')).get('verified_by_coordinator',{}).get('caught_by',[])))")
  git -C /repo apply /verif/$d/patch.diff 2>/dev/null || { echo "| $n | - | patch does not apply | - | - |" >> $out; continue; }
  for c in $checks; do
    log=$(./check $c 2>&1); rc=$?
    echo "| $n | $c | $rc | $(echo "$log" | grep -c '^VIOLATION') | $(echo "$log" | grep -m1 -E '^VIOLATION|^MACHINERY' | sed 's/replay=[^ ]* //' | cut -c1-120) |" >> $out
  done
  git -C /repo checkout -q -- .
done
cat $out
