"""The harness-owned scheduler: executes flox's *real* (unoptimised) dask graph one
task at a time in a chosen order, observes every task output, and describes
every task (kind, blueprint found inside the task's functools.partial, ordered
dependencies, parameters) for the trace specifications.

Also implements the fault actions of spec/Exec.tla on the real graph: Lose /
Rerun (execute a task a second time and compare), Ship (cloudpickle round trip
of the task object), frozen (read-only) inputs and before/after digests.
"""
from __future__ import annotations

import functools
import graphlib
import hashlib
import math
import operator
import pickle

import numpy as np


# ------------------------------------------------------------------ graph access
def graph_of(*collections):
    """key -> GraphNode for the merged, unoptimised graph of the collections"""
    from dask._task_spec import convert_legacy_graph

    dsk = {}
    for c in collections:
        dsk.update(dict(c.__dask_graph__()))
    return convert_legacy_graph(dsk)


def ordered_deps(node) -> list:
    """dependency keys in argument order (nested lists flattened left to right)"""
    from dask._task_spec import Alias, DataNode, GraphNode, Task, TaskRef

    out = []

    def walk(x):
        if isinstance(x, (TaskRef, Alias)) and not isinstance(x, Task):
            k = getattr(x, "key", None)
            tgt = getattr(x, "target", None)
            out.append(tgt if tgt is not None else k)
        elif isinstance(x, Task):
            for a in x.args:
                walk(a)
            for a in x.kwargs.values():
                walk(a)
        elif isinstance(x, DataNode):
            walk(x.value)
        elif isinstance(x, (list, tuple)):
            for a in x:
                walk(a)
        elif isinstance(x, dict):
            for a in x.values():
                walk(a)
        elif isinstance(x, GraphNode):
            for d in sorted(x.dependencies, key=str):
                out.append(d)

    from dask._task_spec import Task as _T

    if isinstance(node, _T):
        for a in node.args:
            walk(a)
        for a in node.kwargs.values():
            walk(a)
    else:
        if isinstance(node, Alias):
            out.append(node.target)
    deps = set(node.dependencies)
    res = [k for k in out if k in deps]
    # anything the walk missed (keeps the closure sound)
    for d in sorted(deps, key=str):
        if d not in res:
            res.append(d)
    return res


def unwrap(func):
    """peel functools.partial / toolz.Compose: returns (base functions innermost-last, merged keywords)"""
    kw = {}
    chain = []
    f = func
    while True:
        if isinstance(f, functools.partial):
            for k, v in (f.keywords or {}).items():
                kw.setdefault(k, v)
            f = f.func
            continue
        first = getattr(f, "first", None)
        funcs = getattr(f, "funcs", None)
        if first is not None and funcs is not None:  # toolz Compose: first is applied first
            chain.extend(getattr(g, "__name__", repr(g)) for g in funcs)
            f = first
            continue
        break
    return f, kw, chain


FINALIZE_KIND = {"_mean_finalize": "mean", "_var_finalize": "var", "_std_finalize": "std", "_pick_second": "second",
                 "_range_finalize": "range", "_rms2_finalize": "ratio"}


def fname(f):
    return getattr(f, "__name__", None) or repr(f)


def project_fill(v):
    """blueprint fill -> abstract value; integer sentinels (iinfo min/max) act as -inf/+inf"""
    from .project import pv

    if v is None:
        return [0, -1]
    if isinstance(v, (bool, np.bool_)):
        return [int(v), 1]
    if isinstance(v, (np.datetime64, np.timedelta64)):
        return [0, 0] if np.isnat(v) else project_fill(int(v.astype("int64")))
    try:
        if isinstance(v, (int, np.integer)):
            iv = int(v)
            if iv >= 2**31 - 1:
                return [1, 0]
            if iv <= -(2**31) + 1:
                return [-1, 0]
            return [iv, 1]
        fv = float(v)
        if fv == fv and abs(fv) not in (float("inf"),) and abs(fv) > 2**31:
            # a huge FINITE float (e.g. finfo.min/max used as a sentinel): it is not an infinity; abstract it as a
            # finite value beyond every alphabet value so that the algebra sees it compete with real -inf/+inf data
            return [(-1 if fv < 0 else 1) * 2**30, 1]
        return pv(fv)
    except Exception:
        return [0, -1]


def project_agg(agg) -> dict:
    """the blueprint (spec/Aggs.tla) of a live, initialised Aggregation object"""
    from flox import xrdtypes

    def names(t):
        return [x if isinstance(x, str) else f"callable:{fname(x)}" for x in t]

    user = agg.fill_value.get("user")
    if user is None:
        uf = {"some": False, "v": [0, 0]}
    elif user is xrdtypes.NA:
        uf = {"some": True, "v": [0, 0]}
    else:
        uf = {"some": True, "v": project_fill(user)}
    fk = agg.finalize_kwargs or {}
    return {
        "name": agg.name,
        "chunk": names(agg.chunk) if agg.chunk != (None,) else [],
        "combine": names(agg.combine) if agg.combine != (None,) else [],
        "fillI": [project_fill(v) for v in agg.fill_value["intermediate"]],
        "finalize": "none" if agg.finalize is None else FINALIZE_KIND.get(fname(agg.finalize), f"callable:{fname(agg.finalize)}"),
        "ddof": int(fk.get("ddof", 0) or 0),
        "minCount": int(agg.min_count),
        "userFill": uf,
        "rtype": agg.reduction_type,
    }


def describe(node) -> dict:
    """kind and parameters of a graph node"""
    from dask._task_spec import Alias, DataNode, Task

    if isinstance(node, DataNode):
        return {"kind": "data"}
    if isinstance(node, Alias) and not isinstance(node, Task):
        return {"kind": "alias"}
    base, kw, chain = unwrap(node.func)
    for k, v in node.kwargs.items():
        kw.setdefault(k, v)
    name = fname(base)
    d = {"kind": "other", "fn": name}
    if name in ("chunk_reduce", "chunk_argreduce"):
        d.update(kind="chunk", reindex=bool(kw.get("reindex")), expected=kw.get("expected_groups"),
                 func=kw.get("func"), fill=kw.get("fill_value"), expand="_expand_dims" in chain,
                 engine=kw.get("engine"), sort=kw.get("sort", True), arg=name == "chunk_argreduce")
    elif name == "_reduce_blockwise":
        d.update(kind="blockwise", agg=kw.get("agg"), expected=kw.get("expected_groups"), reindex=kw.get("reindex"),
                 engine=kw.get("engine"), sort=kw.get("sort", True))
    elif name in ("_simple_combine", "_grouped_combine"):
        d.update(kind="combine", simple=name == "_simple_combine", agg=kw.get("agg"), reindex=kw.get("reindex"), engine=kw.get("engine"))
    elif name == "_aggregate":
        cb, ckw, _ = unwrap(kw.get("combine"))
        rs = kw.get("reindex") or ckw.get("reindex")
        d.update(kind="aggregate", simple=fname(cb) == "_simple_combine", agg=kw.get("agg"), reindex=rs,
                 expected=kw.get("expected_groups"), engine=ckw.get("engine"))
    elif name == "reindex_intermediates":
        d.update(kind="subset", agg=kw.get("agg"), to=kw.get("unique_groups"))
    elif name == "identity":
        d.update(kind="identity")
    elif name == "_extract_result":
        d.update(kind="extract", key=kw.get("key"))
    elif base is operator.getitem:
        d.update(kind="getitem")
    elif name in ("chunk_scan", "grouped_reduce", "scan_binary_op", "_zip", "_finalize_scan"):
        d.update(kind="scan:" + name, agg=kw.get("agg"))
    return d


# ------------------------------------------------------------------ execution
def topo_order(graph, rng=None):
    """a topological order; with rng a uniformly shuffled ready-set choice"""
    indeg = {k: len(v.dependencies) for k, v in graph.items()}
    dependents = {k: [] for k in graph}
    for k, v in graph.items():
        for d in v.dependencies:
            dependents[d].append(k)
    ready = sorted((k for k, n in indeg.items() if n == 0), key=str)
    order = []
    while ready:
        i = rng.randrange(len(ready)) if rng is not None else 0
        k = ready.pop(i)
        order.append(k)
        for c in sorted(dependents[k], key=str):
            indeg[c] -= 1
            if indeg[c] == 0:
                ready.append(c)
    if len(order) != len(graph):
        raise RuntimeError("graph has a cycle or missing dependency")
    return order


def digest(x) -> str:
    h = hashlib.sha1()
    _feed(h, x)
    return h.hexdigest()


def _feed(h, x):
    if isinstance(x, np.ndarray):
        h.update(str(x.dtype).encode())
        h.update(str(x.shape).encode())
        if x.dtype == object:
            h.update(repr(x.tolist()).encode())
        else:
            h.update(np.ascontiguousarray(x).tobytes())
    elif isinstance(x, dict):
        for k in sorted(x, key=str):
            h.update(str(k).encode())
            _feed(h, x[k])
    elif isinstance(x, (list, tuple)):
        h.update(b"[")
        for a in x:
            _feed(h, a)
        h.update(b"]")
    elif hasattr(x, "__dataclass_fields__"):
        for f in x.__dataclass_fields__:
            h.update(f.encode())
            _feed(h, getattr(x, f))
    elif hasattr(x, "to_numpy"):
        _feed(h, x.to_numpy())
    else:
        h.update(repr(x).encode())


def freeze(x):
    """make every ndarray reachable from x read-only (an in-place write raises at the faulty line)"""
    if isinstance(x, np.ndarray):
        try:
            x.flags.writeable = False
        except ValueError:
            pass
    elif isinstance(x, dict):
        for v in x.values():
            freeze(v)
    elif isinstance(x, (list, tuple)):
        for v in x:
            freeze(v)
    elif hasattr(x, "__dataclass_fields__"):
        for f in x.__dataclass_fields__:
            freeze(getattr(x, f))
    return x


def run_node(node, store):
    return node({d: store[d] for d in node.dependencies})


def execute(graph, order=None, *, on_task=None, do_freeze=False):
    """execute every node in `order`; on_task(key, node, store, out) after each Task"""
    from dask._task_spec import DataNode

    if order is None:
        order = topo_order(graph)
    store = {}
    for k in order:
        node = graph[k]
        out = run_node(node, store)
        if do_freeze:
            freeze(out)
        store[k] = out
        if on_task is not None and not isinstance(node, DataNode):
            on_task(k, node, store, out)
    return store


# ------------------------------------------------------------------ export for spec/Exec.tla
def export_graph(graph, value_array_name, outputs, blocklabels, outlabels):
    """the real graph as the JSON constant of spec/Exec.tla; returns (json dict, id->key list)"""
    from dask._task_spec import DataNode

    order = topo_order(graph)
    ident = {k: i + 1 for i, k in enumerate(order)}
    deps, leaf, pre = [], [], []
    for k in order:
        node = graph[k]
        deps.append([ident[d] for d in ordered_deps(node)])
        is_leaf = isinstance(k, tuple) and k[0] == value_array_name
        leaf.append(int(k[-1]) + 1 if is_leaf else 0)
        pre.append(1 if isinstance(node, DataNode) else 0)
    nblocks = max([x for x in leaf] + [1])
    g = {
        "n": len(order), "deps": deps, "leaf": leaf, "pre": pre, "nblocks": nblocks,
        "outputs": [ident[k] for k in outputs],
        "blocklabels": blocklabels, "outlabels": outlabels,
    }
    return g, order


def run_schedule(graph, order_keys, schedule, first_digest: dict, check=None):
    """execute the real graph following a schedule of ("run"|"lose", id) steps from TLC.
    Every task output's digest must equal the first digest ever seen for that key.
    Returns (store, mismatches)."""
    from dask._task_spec import DataNode

    store = {}
    mismatches = []
    for k in order_keys:
        if isinstance(graph[k], DataNode):
            store[k] = run_node(graph[k], store)
    for act, i in schedule:
        k = order_keys[i - 1]
        if act == "lose":
            store.pop(k, None)
            continue
        node = graph[k]
        out = run_node(node, store)
        store[k] = out
        dg = digest(out)
        if k in first_digest:
            if first_digest[k] != dg:
                mismatches.append((i, str(k)))
        else:
            first_digest[k] = dg
    return store, mismatches
