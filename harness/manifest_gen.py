"""Regenerates MANIFEST.json from the table below (keeps it valid at all times)."""
import json, subprocess

CLAIMED = {}  # filled below

def check(pid, text, note, technique, design_ref):
    CLAIMED[pid] = {
        "property_id": pid,
        "quick_cmd": f"./check {pid} --tier quick",
        "thorough_cmd": f"./check {pid} --tier thorough",
        "evidence_file": f"/verif/evidence/{pid}.json",
        "replay_cmd_template": f"./check {pid} --replay {{path}}",
        "engine": "tla-flox",
        "level_claimed": {"category": "model_checking", "text": text, "design_ref": design_ref},
        "level_note": note,
        "technique": technique,
    }

TB = ("Trusted base: TLC 1.8, the projection harness/project.py, NumPy/pandas as cross-check of Ref.tla (harness/selftest.py); "
      "values restricted to exactly representable small rationals, NaN, +-inf; floating-point rounding is outside the model.")

check("C01",
      "TLC model-checks the transcribed engine wrappers against the NumPy reference semantics (Ref.tla) over all value sequences of an "
      "8-symbol alphabet (NaN, +-inf, negatives, zero) up to length 4/5, and every Return of real eager groupby_reduce calls on all five engine "
      "settings over an enumerated space (exhaustive core + seeded subset) is validated line by line by the trace specification "
      "TraceReduce.tla; a corrupted record must be rejected in every run.",
      TB, "TLA+ spec + TLC model checking + trace validation of recorded API calls (TraceReduce.tla)", "DESIGN.md section 5 C01")

check("C02",
      "TLC model-checks the whole map-reduce pipeline (block stage -> reindex -> combine tree -> finalize) of Aggs.tla, interpreted over the "
      "blueprint table extracted from the LIVE registry, against the NumPy reference for every input, chunking, combine kind, reindex mode and "
      "split_every in small scope (a counterexample is confirmed on real flox before it counts; a mutated table must be rejected); every Return of "
      "real chunked calls over values x labels x ALL chunkings x method x reindex x numpy|dask labels is validated by TraceReduce.tla; and real "
      "graphs are executed task by task by the harness scheduler with every flox task validated against Aggs!Sem by TraceGraph.tla."
      " The composed specification Flox.tla (Factorize -> Cohorts/Plan -> Rechunk -> strategy -> Finish over the live blueprint table) is model-checked exhaustively at small bounds and its TLC-simulated behaviours are replayed into the real groupby_reduce (spec -> code): every specified slot of every finished behaviour must equal the specification's value.",
      TB + " Kernels (numpy_groupies, numbagg, ufunc.reduceat) are primitives whose assumed semantics are checked on every replayed task.",
      "TLA+ pipeline model on the live registry (TLC) + trace validation of API returns and of every task of real dask graphs + replay of TLC-generated behaviours of the composed spec Flox.tla", "DESIGN.md section 5 C02")

check("C03",
      "Three TLC layers: MC_Laws!Bracket (combine insensitive to bracketing, on the live registry), MC_Tree (both tree builders well formed for all "
      "nblocks x split_every incl. the extra-level deviation) and Exec.tla instantiated with REAL exported graphs (Confluence under every interleaving "
      "of RunTask with Lose/re-execution; exhaustive for small graphs, simulation beyond). Bound to the code by: real trees validated against Tree.tla "
      "(TraceTree), TLC-generated schedules replayed on the real graph by the harness scheduler with per-task digests compared across schedules, threaded "
      "runs, and final results per split_every validated by TraceReduce.",
      TB + " Distributed schedulers are represented by the RunTask/Lose/re-execution model.",
      "TLC on real exported task graphs (all interleavings) + schedule replay on the real graph + tree conformance", "DESIGN.md section 5 C03")
check("C04",
      "MC_Laws checks Exact / Bracket / Neutral for every blueprint of the LIVE registry and the driver's user-defined Aggregation objects over every "
      "member sequence of the alphabet and every split into three ordered parts incl. empty ones (a mutated table must be rejected); each (sequence, "
      "split) class is replayed as a 3-block dask array by name and as flox.Aggregation objects, every task validated by TraceGraph and every lawful "
      "final result by TraceReduce.",
      TB, "TLC laws on the blueprint table generated from the live registry + task-level trace validation", "DESIGN.md section 5 C04")
check("C06",
      "MC_Pipeline restricted to positional reductions over a tie alphabet explores every chunking/tree depth with (value, global index) pairs; real "
      "graphs are replayed task by task incl. the zipped index blocks (must be the global arange), and eager/chunked Returns over all chunkings, "
      "strategies and split_every are validated against Ref on global positions.",
      TB, "TLC pipeline model (positional) + task-level and API-level trace validation", "DESIGN.md section 5 C06")
check("C13",
      "Exec.tla on a real exported graph: Confluence under all interleavings with Lose/re-execution, and the negative control (one impure task must break "
      "Confluence). Every task of real graphs of every reduction x strategy x engine and of the scans is executed with frozen inputs, input digests "
      "before/after, a second execution and a cloudpickle round trip; the event stream is validated by the stateful trace spec TraceExec.tla.",
      TB + " Content digests identify values.", "TLC scheduler model with fault actions + stateful trace validation of real executions", "DESIGN.md section 5 C13")

check("C05",
      "MC_Factorize (requested labels -> codes: slots are the sort contract, -1 iff missing/unrequested) and MC_Pipeline on the live registry's "
      "min_count rows (absent slot and under-populated group receive the user's fill) are model-checked; Returns of real calls over labels x "
      "expected_groups (sub/super/disjoint, sorted/unsorted) x sort x fill x min_count x 23 reductions x engines x eager|strategy|chunking are validated "
      "by TraceReduce.tla. Two classes of genuine defects are listed as known findings (explicit min_count=0)."
      " The composed specification Flox.tla (Factorize -> Cohorts/Plan -> Rechunk -> strategy -> Finish over the live blueprint table) is model-checked exhaustively at small bounds and its TLC-simulated behaviours are replayed into the real groupby_reduce (spec -> code): behaviours with requested labels (given unsorted) must return exactly the labels Factorize.tla says.",
      TB, "TLC factorisation + pipeline models, trace validation of API returns, replay of Flox.tla behaviours", "DESIGN.md section 5 C05")
check("C16",
      "MC_Factorize!GroupsAreContract/CodesPointAtSlots and MC_Pipeline!InvLabels at design level; Returns for int/str/float+NaN labels x sort x "
      "expected_groups x every strategy/chunking x numpy|dask labels validated by TraceReduce.tla (clauses groups / order / values)."
      " The composed specification Flox.tla (Factorize -> Cohorts/Plan -> Rechunk -> strategy -> Finish over the live blueprint table) is model-checked exhaustively at small bounds and its TLC-simulated behaviours are replayed into the real groupby_reduce (spec -> code): behaviours without requested labels must return the labels in the order Factorize.tla says (any order only for groups discovered at compute time with sort=False).",
      TB, "TLC factorisation model + trace validation of API returns (order and label->value pairing) + replay of Flox.tla behaviours", "DESIGN.md section 5 C16")

check("C18",
      "MC_Quantile: the transcribed index arithmetic of quantile_ (valid counts, cumulative offsets, q(n-1), floor/ceil, lerp, NaN masks) equals "
      "numpy's linear quantile for every small two-group configuration and rational q (the unmasked variant, defect D5, is rejected); real calls "
      "(engines auto/flox/numpy, scalar and vector q, batch dim, eager and blockwise-chunked, refusal when a group straddles blocks) are validated by TraceReduce.tla.",
      TB + " Infinities excluded as the property states.", "TLC model of the quantile index arithmetic + trace validation of API returns", "DESIGN.md section 5 C18")
check("C20",
      "MC_Engines with +-inf in the alphabet (sentinel-comparison variant rejected as negative control) and MC_Laws!Exact for var/std (sum-of-squares finalize = "
      "two-pass variance exactly); real calls validated by TraceReduce.tla: inf-mixing arrays x min/max family x all engines x strategies; narrow-int arrays "
      "whose totals exceed the input width must return the exact sums/products; var/std on shifted residues within 1e-6 of the exact rational.",
      TB + " No rounding-error bound is claimed.", "TLC engine/algebra models + trace validation of API returns", "DESIGN.md section 5 C20")

check("C07",
      "MC_Factorize (BinsLikeCut on edges/interior/outside/NaN/+-inf for both closed sides, RavelOk: tuple code row-major, injective, -1 absorbing) at "
      "design level; real calls with 1-3 groupers of any mix of categorical/binned kinds, equal shapes or size-1 broadcasting, eager and chunked, numpy "
      "and dask labels (also one chunked and one in-memory grouper without expected_groups) are validated by TraceMulti.tla, which recomputes every element's "
      "tuple slot from Ref!RefCut and the requested labels. Behaviours of the composed specification Flox.tla with TWO groupers (Factorize!RavelFactorized, the "
      "label grid, every strategy / reindex setting) are TLC-simulated and replayed into the real groupby_reduce.",
      TB + " RefCut is cross-checked against real pandas.cut by the selftest.", "TLC factorisation model + trace validation (tuple-key semantics, pandas.cut) + replay of two-grouper Flox.tla behaviours", "DESIGN.md section 5 C07")
check("C08",
      "MC_Factorize!OffsetsOk (per-slice offsets injective, -1 preserved) at design level; real calls on 1-4-D arrays with 1-3-D labels and every "
      "non-empty subset of label dims as axis (any order/sign), eager and chunked along any axes: shape checked, then EVERY kept-index slice validated as "
      "a 1-D grouped reduction by TraceReduce.tla.",
      TB, "trace validation of every slice of N-D results against the 1-D reference + TLC offsets model", "DESIGN.md section 5 C08")

check("C09",
      "MC_Cohorts: find_group_cohorts transcribed step by step (Cohorts.tla, incl. the dictionary keyed by block unions) satisfies partition / cover / "
      "blockwise-only-if-confined for ALL incidence matrices up to 4x4 | 5x4 and both merge values; the REAL planner is run on every matrix of the same "
      "space (+ padded chunks, five/six-chunk matrices, 2x2 chunk grids) and validated by TraceCohorts.tla against the property relation (differences from "
      "the transcription are DRIFT only); dependency closures of real graphs of every strategy are checked in Exec.tla (CountedOnce, ClosureSound); base-4 "
      "provenance sums are validated by TraceReduce.tla.",
      TB, "TLC on the transcribed planner (exhaustive matrices) + trace validation of the real planner + closures of real graphs in TLC", "DESIGN.md section 5 C09")

check("C10",
      "MC_Scan (Scan.tla): the per-group state operator of scan_binary_op (both modes) is associative on block states and the folded prefix plus the "
      "final step equals the sequential per-group NumPy scan position by position, for every input, every chunking (every prefix-tree shape) and bfill as "
      "mirrored ffill; real dask_groupby_scan graphs are executed task by task with every grouped_reduce / chunk_scan / scan_binary_op output validated "
      "by TraceScan.tla, and eager/chunked Returns are validated against Ref!RefScan.  FloxScan.tla composes the whole groupby_scan call (validation order, "
      "pass-through, single-member shortcut, eager scan, the cumreduction task graph with EVERY task order and EVERY bracketing of the block states, finalize) "
      "and is model-checked (Inv_ScanResult, Inv_TreeIndependent, Inv_NoLeak, Inv_CleanRefusal, five vacuity witnesses); its TLC-simulated behaviours "
      "(incl. +-inf data, refusal cells, shortcuts) are replayed into the real groupby_scan.",
      TB + " Positions whose label is missing are unspecified.", "TLC scan-operator model + composed call model FloxScan.tla (TLC, all task orders and bracketings) + task-level and API-level trace validation + replay of TLC-generated behaviours into groupby_scan", "DESIGN.md section 5 C10 and 12.11")

check("C17",
      "MC_Rechunk: the transcribed _get_optimal_chunks_for_groups and the division loop of rechunk_for_cohorts satisfy the postconditions (valid chunks, no "
      "group straddling a boundary for sequential labels, forced labels start chunks, old boundaries kept unless ignored) for all label sequences up to 6|8 with "
      "all chunkings, forced sets, chunksize hints; the REAL helpers (array and xarray flavours) are run on all sorted runs x chunkings and on periodic patterns "
      "and validated by TraceRechunk.tla (postconditions, data preserved, drift vs the transcription); method='blockwise' on sorted labels under arbitrary "
      "chunking is validated against Ref.",
      TB, "TLC on the transcribed helpers + trace validation of the real helpers", "DESIGN.md section 5 C17")

check("C19",
      "MC_Plan: the transcribed decision logic of groupby_reduce (Plan.tla: refusals, engine/strategy/reindex resolution) over the full configuration product "
      "(201 600 consistent cells): Total, AutoWorksWhereMapReduceDoes, AutoPlanPreconditions (a TLC counterexample, confirmed on the code, led to one of the "
      "fix: commits). Cells are executed on real flox on ordinary and degenerate inputs under all four methods and the outcome vectors validated by TracePlan.tla "
      "against the property relation (clean refusal classes; map-reduce ok => auto ok and equal; explicit plans equal or refused); model-vs-code differences are "
      "DRIFT only; accepted 1-D results are validated against Ref. Every groupby_reduce call made by (part of) the repository's OWN test-suite is recorded "
      "by the FLOX_VERIF hook (configuration scalars, outcome, resolved strategy / engine / reindex mode) and validated against Plan.tla by TraceCalls.tla "
      "(unlogged planner inputs and label sortedness are left to TLC as existentials); behaviours of the composed specification Flox.tla are replayed into the "
      "real code and must never escape with an internal error.",
      TB + " sparse/cubed are not installed.", "TLC on the decision model (full configuration product) + trace validation of executed cells and of the calls recorded from the repository's own tests + replay of Flox.tla behaviours", "DESIGN.md section 5 C19")

check("C12",
      "Lifecycle.tla (idle -> constructing -> returned -> computing) with NoEagerEvaluation / ReturnsLazy / NoPeekingAtChunkedLabels model-checked; every "
      "configuration cell of groupby_reduce / groupby_scan / xarray_reduce is replayed with poisoned inputs (every chunk wrapped in an evaluation probe) and the "
      "recorded event stream call/eval/return/compute validated by the stateful trace spec TraceLazy.tla; for chunked labels without expected_groups the "
      "(labels found, values) mapping is validated against Ref by TraceReduce.tla.",
      TB, "TLC life-cycle model + stateful trace validation of probe events", "DESIGN.md section 5 C12")

check("C11",
      "MC_Dtypes: the full table of Dtypes!RefDtype (13 dtypes x 25 reductions x dtype= x fill) with structural invariants; every cell is executed on real flox "
      "for every engine setting and path (eager, auto, map-reduce, cohorts, blockwise); the announced dtype/shape/chunks/array type of lazy results and the "
      "dtype/shape of every computed block are recorded and validated by TraceDtype.tla (result dtype = RefDtype, hence path independent; announced = computed).",
      TB + " Platform integer = int64 (this sandbox).", "TLC dtype table + trace validation of executed cells (announced vs computed)", "DESIGN.md section 5 C11")

check("C14",
      "Api.tla: NamesInjective over gen/NameDeps.tla (which ingredients change each layer family's key names, EXTRACTED from the live code by building pairs of "
      "lazy results differing in one ingredient) against SemDependsOn, plus the call-history machine with the memo cache keyed as in the code (MemoSound, "
      "RegistryUntouched); TLC -simulate generates call histories that are replayed in fresh subprocesses (argument digests and a structural snapshot of "
      "AGGREGATIONS after every call; each result compared with the same call made first in a fresh process); every pair/triple differing in one ingredient "
      "is evaluated in one merged graph in both orders vs separately; all records validated by the stateful trace spec TraceApi.tla.",
      TB + " Content digests identify values.", "TLC on extracted key-name dependency tables and call histories + replay in fresh processes + merged-graph evaluation", "DESIGN.md section 5 C14")

check("C15",
      "MC_XrDims: the dimension rule (group dimension once; exactly the reduced dimensions disappear; order kept) over all objects of 1-4 dimensions in every "
      "order, 1-D/2-D groupers and every reduce set; every object shape x grouper kind x dim x function x skipna x dtype x chunked x DataArray|Dataset is run three "
      "ways (specification's prediction, xarray_reduce, native xarray with use_flox=False = the oracle) and validated by TraceXr.tla: dims, coords, values, attrs, "
      "name, values = groupby_reduce on the raw arrays, pass-through; prediction vs native is DRIFT only. Two Dataset-specific discrepancies are known findings.",
      TB + " Native xarray is the oracle; the specification contributes the enumeration and the dims algebra (values are covered by C01/C02).",
      "TLC dims-algebra model + three-way replay validated by trace specification", "DESIGN.md section 5 C15")

ALL = [f"C{n:02d}" for n in range(1, 21)]

def main():
    na = [{"property_id": p, "reason": "check not built yet in this build session (work in progress; see DESIGN.md section 9 build order)"} for p in ALL if p not in CLAIMED]
    commits = subprocess.run(["git", "-C", "/repo", "log", "--format=%H %s"], capture_output=True, text=True).stdout.splitlines()
    hook_commits = [c.split()[0] for c in commits if c.split(" ", 1)[1].startswith("verif-hook:")]
    man = {
        "version": 1,
        "setup_cmd": "cd /verif && ./setup.sh",
        "hooks": {
            "guard": "FLOX_VERIF",
            "enable": "environment variable FLOX_VERIF=1 (set by ./check); flox is imported from /repo's working tree via PYTHONPATH, nothing is built",
            "baseline_off_cmd": "cd /verif && /venv/bin/python harness/baseline.py",
            "source_commits": hook_commits,
            "add_only": True,
        },
        "engines": [{
            "name": "tla-flox", "path": "/verif/spec",
            "serves_properties": sorted(CLAIMED),
            "kind_free_text": "explicit TLA+ specification of flox (value algebra, reference semantics, engine wrappers, aggregation algebra, "
                              "planner, graph/scheduler, scans) checked with TLC and bound to the code by trace validation and behaviour replay",
        }],
        "checks": [CLAIMED[p] for p in sorted(CLAIMED)],
        "notes": "All checks: exit 0 held / exit 1 VIOLATION / exit 2 machinery failure. Known findings: /verif/known_findings.txt.",
        "not_applicable": na,
    }
    json.dump(man, open("/verif/MANIFEST.json", "w"), indent=1)
    print("claimed", sorted(CLAIMED), "n/a", len(na))

if __name__ == "__main__":
    main()
