"""Regenerates MANIFEST.json from the table below (keeps it valid at all times)."""
import json, subprocess

CLAIMED = {}  # filled below

def check(pid, text, note, technique, design_ref):
    CLAIMED[pid] = {
        "property_id": pid,
        "quick_cmd": f"./check {pid} --tier quick",
        "thorough_cmd": f"./check {pid} --tier thorough",
        "evidence_file": f"/verif/evidence/{pid}.json",
        "replay_cmd_template": f"./check {pid} --replay {{path}}",
        "engine": "tla-flox",
        "level_claimed": {"category": "model_checking", "text": text, "design_ref": design_ref},
        "level_note": note,
        "technique": technique,
    }

TB = ("Trusted base: TLC 1.8, the projection harness/project.py, NumPy/pandas as cross-check of Ref.tla (harness/selftest.py); "
      "values restricted to exactly representable small rationals, NaN, +-inf; floating-point rounding is outside the model.")

check("C01",
      "TLC model-checks the transcribed engine wrappers against the NumPy reference semantics (Ref.tla) over all value sequences of an "
      "8-symbol alphabet (NaN, +-inf, negatives, zero) up to length 4/5, and every Return of real eager groupby_reduce calls on all five engine "
      "settings over an enumerated space (exhaustive core + seeded subset) is validated line by line by the trace specification "
      "TraceReduce.tla; a corrupted record must be rejected in every run.",
      TB, "TLA+ spec + TLC model checking + trace validation of recorded API calls (TraceReduce.tla)", "DESIGN.md section 5 C01")

ALL = [f"C{n:02d}" for n in range(1, 21)]

def main():
    na = [{"property_id": p, "reason": "check not built yet in this build session (work in progress; see DESIGN.md section 9 build order)"} for p in ALL if p not in CLAIMED]
    commits = subprocess.run(["git", "-C", "/repo", "log", "--format=%H %s"], capture_output=True, text=True).stdout.splitlines()
    hook_commits = [c.split()[0] for c in commits if c.split(" ", 1)[1].startswith("verif-hook:")]
    man = {
        "version": 1,
        "setup_cmd": "cd /verif && ./setup.sh",
        "hooks": {
            "guard": "FLOX_VERIF",
            "enable": "environment variable FLOX_VERIF=1 (set by ./check); flox is imported from /repo's working tree via PYTHONPATH, nothing is built",
            "baseline_off_cmd": "cd /verif && /venv/bin/python harness/baseline.py",
            "source_commits": hook_commits,
            "add_only": True,
        },
        "engines": [{
            "name": "tla-flox", "path": "/verif/spec",
            "serves_properties": sorted(CLAIMED),
            "kind_free_text": "explicit TLA+ specification of flox (value algebra, reference semantics, engine wrappers, aggregation algebra, "
                              "planner, graph/scheduler, scans) checked with TLC and bound to the code by trace validation and behaviour replay",
        }],
        "checks": [CLAIMED[p] for p in sorted(CLAIMED)],
        "notes": "All checks: exit 0 held / exit 1 VIOLATION / exit 2 machinery failure. Known findings: /verif/known_findings.txt.",
        "not_applicable": na,
    }
    json.dump(man, open("/verif/MANIFEST.json", "w"), indent=1)
    print("claimed", sorted(CLAIMED), "n/a", len(na))

if __name__ == "__main__":
    main()
