"""Regenerates MANIFEST.json from the table below (keeps it valid at all times)."""
import json, subprocess

CLAIMED = {}  # filled below

def check(pid, text, note, technique, design_ref):
    CLAIMED[pid] = {
        "property_id": pid,
        "quick_cmd": f"./check {pid} --tier quick",
        "thorough_cmd": f"./check {pid} --tier thorough",
        "evidence_file": f"/verif/evidence/{pid}.json",
        "replay_cmd_template": f"./check {pid} --replay {{path}}",
        "engine": "tla-flox",
        "level_claimed": {"category": "model_checking", "text": text, "design_ref": design_ref},
        "level_note": note,
        "technique": technique,
    }

TB = ("Trusted base: TLC 1.8, the projection harness/project.py, NumPy/pandas as cross-check of Ref.tla (harness/selftest.py); "
      "values restricted to exactly representable small rationals, NaN, +-inf; floating-point rounding is outside the model.")

check("C01",
      "TLC model-checks the transcribed engine wrappers against the NumPy reference semantics (Ref.tla) over all value sequences of an "
      "8-symbol alphabet (NaN, +-inf, negatives, zero) up to length 4/5, and every Return of real eager groupby_reduce calls on all five engine "
      "settings over an enumerated space (exhaustive core + seeded subset) is validated line by line by the trace specification "
      "TraceReduce.tla; a corrupted record must be rejected in every run.",
      TB, "TLA+ spec + TLC model checking + trace validation of recorded API calls (TraceReduce.tla)", "DESIGN.md section 5 C01")

check("C02",
      "TLC model-checks the whole map-reduce pipeline (block stage -> reindex -> combine tree -> finalize) of Aggs.tla, interpreted over the "
      "blueprint table extracted from the LIVE registry, against the NumPy reference for every input, chunking, combine kind, reindex mode and "
      "split_every in small scope (a counterexample is confirmed on real flox before it counts; a mutated table must be rejected); every Return of "
      "real chunked calls over values x labels x ALL chunkings x method x reindex x numpy|dask labels is validated by TraceReduce.tla; and real "
      "graphs are executed task by task by the harness scheduler with every flox task validated against Aggs!Sem by TraceGraph.tla.",
      TB + " Kernels (numpy_groupies, numbagg, ufunc.reduceat) are primitives whose assumed semantics are checked on every replayed task.",
      "TLA+ pipeline model on the live registry (TLC) + trace validation of API returns and of every task of real dask graphs", "DESIGN.md section 5 C02")

ALL = [f"C{n:02d}" for n in range(1, 21)]

def main():
    na = [{"property_id": p, "reason": "check not built yet in this build session (work in progress; see DESIGN.md section 9 build order)"} for p in ALL if p not in CLAIMED]
    commits = subprocess.run(["git", "-C", "/repo", "log", "--format=%H %s"], capture_output=True, text=True).stdout.splitlines()
    hook_commits = [c.split()[0] for c in commits if c.split(" ", 1)[1].startswith("verif-hook:")]
    man = {
        "version": 1,
        "setup_cmd": "cd /verif && ./setup.sh",
        "hooks": {
            "guard": "FLOX_VERIF",
            "enable": "environment variable FLOX_VERIF=1 (set by ./check); flox is imported from /repo's working tree via PYTHONPATH, nothing is built",
            "baseline_off_cmd": "cd /verif && /venv/bin/python harness/baseline.py",
            "source_commits": hook_commits,
            "add_only": True,
        },
        "engines": [{
            "name": "tla-flox", "path": "/verif/spec",
            "serves_properties": sorted(CLAIMED),
            "kind_free_text": "explicit TLA+ specification of flox (value algebra, reference semantics, engine wrappers, aggregation algebra, "
                              "planner, graph/scheduler, scans) checked with TLC and bound to the code by trace validation and behaviour replay",
        }],
        "checks": [CLAIMED[p] for p in sorted(CLAIMED)],
        "notes": "All checks: exit 0 held / exit 1 VIOLATION / exit 2 machinery failure. Known findings: /verif/known_findings.txt.",
        "not_applicable": na,
    }
    json.dump(man, open("/verif/MANIFEST.json", "w"), indent=1)
    print("claimed", sorted(CLAIMED), "n/a", len(na))

if __name__ == "__main__":
    main()
