#!/bin/sh
# seedtest.sh <seed dir with patch.diff> <check ids...> : apply the seeded change to /repo, run the quick checks, undo.
d=$1; shift
cd /repo || exit 2
git diff --quiet || { echo "repo dirty"; exit 2; }
git apply "$d/patch.diff" || { echo "patch does not apply"; exit 2; }
for c in "$@"; do
  out=$(cd /verif && ./check $c --tier quick 2>&1)
  rc=$?
  echo "== $c rc=$rc $(echo "$out" | grep -c '^VIOLATION') violations; $(echo "$out" | grep -E '^(VIOLATION|MACHINERY|OK)' | head -2 | cut -c1-200)"
done
git -C /repo checkout -- . 
