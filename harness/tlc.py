"""Running TLC (model checking, simulation, trace validation) and parsing what
it prints."""
from __future__ import annotations

import json
import os
import re
import shutil
import subprocess
import tempfile
import time
from concurrent.futures import ThreadPoolExecutor
from dataclasses import dataclass, field
from pathlib import Path

from . import tlaval

VERIF = Path("/verif")
SPEC = VERIF / "spec"
GEN = VERIF / "gen"
WORK = VERIF / "out" / "work"
JAR = "/opt/veriftools/tla/tla2tools.jar:/opt/veriftools/tla/CommunityModules-deps.jar"


class MachineryFailure(Exception):
    """exit 2: the machinery (not flox) is at fault"""


@dataclass
class TlcResult:
    rc: int
    out: str
    generated: int = 0
    distinct: int = 0
    depth: int = 0
    finished: bool = False
    violated: str | None = None
    error_trace: list = field(default_factory=list)
    wall_s: float = 0.0
    coverage: dict = field(default_factory=dict)
    cmd: str = ""

    def printed(self, tag: str) -> list:
        """all values printed by PrintT that are tuples starting with the string `tag`"""
        vals = []
        for m in re.finditer(r'<<\s*"' + re.escape(tag) + '"', self.out):
            try:
                v, _ = tlaval.parse_prefix(self.out, m.start())
                vals.append(v)
            except Exception as e:  # a value we cannot parse is a machinery failure, never silently dropped
                raise MachineryFailure(f"cannot parse TLC output at {self.out[m.start():m.start()+200]!r}: {e}")
        return vals


def new_workdir(tag: str) -> Path:
    WORK.mkdir(parents=True, exist_ok=True)
    wd = Path(tempfile.mkdtemp(prefix=f"{tag}-", dir=WORK))
    for f in SPEC.glob("*.tla"):
        shutil.copy(f, wd / f.name)
    if GEN.exists():
        for f in GEN.glob("*.tla"):
            shutil.copy(f, wd / f.name)
    return wd


def cleanup(wd: Path):
    shutil.rmtree(wd, ignore_errors=True)


_STATS = re.compile(r"(\d+) states generated, (\d+) distinct states found")
_DEPTH = re.compile(r"The depth of the complete state graph search is (\d+)")
_INV = re.compile(r"Error: (?:Invariant (\S+) is violated|The invariant of (\S+) is equal to FALSE)")
_PROP = re.compile(r"Error: (?:Action|Temporal) propert(?:y|ies) (\S+)? ?(?:is|were) violated")
_COV = re.compile(r"^<(\w+) line (\d+), col (\d+) to line (\d+), col (\d+) of module (\w+)>: (\d+):(\d+)", re.M)


def run_tlc(
    module: str,
    cfg: str,
    wd: Path,
    *,
    workers: int = 16,
    timeout: int = 600,
    env: dict | None = None,
    extra: tuple = (),
    coverage: bool = False,
    heap: str = "4g",
    dfs: bool = False,
) -> TlcResult:
    """cfg is the *text* of the configuration file."""
    cfgname = f"{module}_{abs(hash(cfg)) % 10**8}.cfg"
    (wd / cfgname).write_text(cfg)
    meta = wd / f"meta_{time.time_ns()}"
    jopts = [f"-Xmx{heap}", "-XX:+UseParallelGC"]
    if dfs:
        jopts.append("-Dtlc2.tool.queue.IStateQueue=StateDeque")
    cmd = [
        "java", *jopts, "-cp", JAR, "tlc2.TLC", "-workers", str(workers), "-metadir", str(meta),
        "-noGenerateSpecTE", "-config", cfgname, *(["-coverage", "1"] if coverage else []), *extra, f"{module}.tla",
    ]
    e = dict(os.environ)
    if env:
        e.update(env)
    t0 = time.time()
    try:
        proc = subprocess.run(cmd, cwd=wd, env=e, stdout=subprocess.PIPE, stderr=subprocess.STDOUT, text=True, timeout=timeout)
        out, rc = proc.stdout, proc.returncode
    except subprocess.TimeoutExpired as ex:
        out = (ex.stdout or b"").decode() if isinstance(ex.stdout, bytes) else (ex.stdout or "")
        rc = -9
    res = TlcResult(rc=rc, out=out, wall_s=time.time() - t0, cmd=" ".join(cmd))
    m = None
    for m in _STATS.finditer(out):
        pass
    if m:
        res.generated, res.distinct = int(m.group(1)), int(m.group(2))
    m = _DEPTH.search(out)
    if m:
        res.depth = int(m.group(1))
    res.finished = "Model checking completed" in out or "Finished in" in out
    m = _INV.search(out)
    if m:
        res.violated = m.group(1) or m.group(2)
    elif "is violated" in out or "was violated" in out:
        m2 = re.search(r"Error: (.*violated.*)", out)
        res.violated = m2.group(1) if m2 else "property"
    elif "Error: Deadlock reached" in out:
        res.violated = "Deadlock"
    if res.violated:
        res.error_trace = parse_error_trace(out)
    if coverage:
        for m in _COV.finditer(out):
            res.coverage[m.group(1)] = res.coverage.get(m.group(1), 0) + int(m.group(7))
    shutil.rmtree(meta, ignore_errors=True)
    return res


_STATE_HDR = re.compile(r"^State (\d+): <(.*?)>\s*$", re.M)


def parse_error_trace(out: str) -> list[dict]:
    """States of a TLC counterexample as dicts var -> parsed value."""
    states = []
    hdrs = list(_STATE_HDR.finditer(out))
    for k, h in enumerate(hdrs):
        end = hdrs[k + 1].start() if k + 1 < len(hdrs) else len(out)
        body = out[h.end() : end]
        st = {"_action": h.group(2)}
        # conjuncts "/\ var = value" possibly spanning lines
        parts = re.split(r"^/\\ ", body, flags=re.M)
        for part in parts:
            part = part.strip()
            if not part or "=" not in part:
                continue
            var, _, val = part.partition("=")
            val = val.strip()
            # cut at a blank line (end of state)
            val = val.split("\n\n")[0]
            try:
                st[var.strip()] = tlaval.parse(val)
            except Exception:
                st[var.strip()] = val
        states.append(st)
    return states


def require_ok(res: TlcResult, what: str):
    """TLC must have finished without crashing (violations are handled by the caller)."""
    if res.rc == -9:
        raise MachineryFailure(f"{what}: TLC timed out after {res.wall_s:.0f}s\n{res.out[-1500:]}")
    if not res.finished and not res.violated:
        raise MachineryFailure(f"{what}: TLC did not finish (rc={res.rc})\n{res.out[-3000:]}")


TRACE_CFG = "SPECIFICATION Spec\nPOSTCONDITION TraceAccepted\nCHECK_DEADLOCK FALSE\n"


def validate_trace(module: str, records: list[dict], *, tag: str, shards: int = 8, timeout: int = 900, cfg: str = TRACE_CFG):
    """Validate `records` (one ndjson line each) with the trace specification
    `module`.  Returns (fails, stats) where fails is the list of parsed
    <<"FAIL", id, clauses, ...>> tuples and stats has states/transitions."""
    if not records:
        return [], {"states": 0, "transitions": 0, "wall_s": 0.0, "jvms": 0}
    shards = max(1, min(shards, (len(records) + 199) // 200))
    wd = new_workdir(tag)
    try:
        files = []
        for s in range(shards):
            part = records[s::shards]
            fn = wd / f"trace_{s}.ndjson"
            with open(fn, "w") as f:
                for r in part:
                    f.write(json.dumps(r, separators=(",", ":")) + "\n")
            files.append((fn, len(part)))

        def one(arg):
            fn, n = arg
            res = run_tlc(module, cfg, wd, workers=1, timeout=timeout, env={"TRACE_FILE": str(fn)}, heap="2g")
            return res, n

        t0 = time.time()
        with ThreadPoolExecutor(max_workers=shards) as ex:
            results = list(ex.map(one, files))
        fails = []
        states = trans = 0
        for res, n in results:
            require_ok(res, f"trace validation {module}")
            if res.violated or res.rc != 0 or res.distinct != n + 1:
                raise MachineryFailure(
                    f"trace validation {module}: TLC did not consume the whole trace "
                    f"(rc={res.rc}, distinct={res.distinct}, lines={n}, violated={res.violated})\n{res.out[-3000:]}"
                )
            fails.extend(res.printed("FAIL"))
            states += res.distinct
            trans += res.generated
        return fails, {"states": states, "transitions": trans, "wall_s": time.time() - t0, "jvms": shards}
    finally:
        cleanup(wd)
