"""Self-test of the oracle transcription: the reference semantics in spec/Ref.tla is
evaluated by TLC on records whose `out` was computed by REAL NumPy / pandas (never by
flox).  A mismatch means Ref.tla was transcribed wrongly: exit 2 (machinery failure,
never an alarm about flox).

  reductions   numpy per group (np.sum, np.nansum, ..., np.quantile method='linear')
  scans        np.nancumsum, pandas ffill / bfill per group
  binning      pandas.cut (right and left closed)
"""
from __future__ import annotations

import itertools
import sys
import warnings

import numpy as np
import pandas as pd

from . import gen, redcase, tlc
from .project import NAN, pv, to_float

NP = {
    "sum": np.sum, "nansum": np.nansum, "prod": np.prod, "nanprod": np.nanprod, "mean": np.mean, "nanmean": np.nanmean,
    "max": np.max, "nanmax": np.nanmax, "min": np.min, "nanmin": np.nanmin, "count": lambda a: np.sum(~np.isnan(a)),
    "first": lambda a: a[0], "last": lambda a: a[-1],
    "nanfirst": lambda a: a[~np.isnan(a)][0] if (~np.isnan(a)).any() else np.nan,
    "nanlast": lambda a: a[~np.isnan(a)][-1] if (~np.isnan(a)).any() else np.nan,
    "median": np.median, "nanmedian": np.nanmedian,
}


def np_ref(func, a, ddof=0, q=None):
    with warnings.catch_warnings():
        warnings.simplefilter("ignore")
        with np.errstate(all="ignore"):
            if func in ("var", "std"):
                return np.var(a, ddof=ddof)
            if func in ("nanvar", "nanstd"):
                return np.nanvar(a, ddof=ddof)
            if func == "quantile":
                return np.quantile(a, q, method="linear")
            if func == "nanquantile":
                return np.nanquantile(a, q, method="linear")
            if func in ("argmax", "nanargmax"):
                return int(np.nanargmax(a))
            if func in ("argmin", "nanargmin"):
                return int(np.nanargmin(a))
            return NP[func](a)


def main() -> int:
    warnings.filterwarnings("ignore")
    lines = []
    funcs = ["sum", "nansum", "prod", "nanprod", "mean", "nanmean", "var", "nanvar", "max", "nanmax", "min", "nanmin", "count", "first", "last",
             "nanfirst", "nanlast", "argmax", "argmin", "nanargmax", "nanargmin", "median", "nanmedian", "quantile", "nanquantile"]
    seqs = gen.seqs_upto(gen.ALPHA_F8, 3) + [list(s) for s in itertools.product(gen.ALPHA_F8_HALF, repeat=4)][::7]
    for vals in seqs:
        a = np.array([to_float(v) for v in vals])
        for func in funcs:
            for ddof in ((0, 1) if "var" in func else (0,)):
                for q in (([1, 4], [1, 3], [9, 10], [1, 1]) if "quantile" in func else ([1, 2],)):
                    # scope of the properties: see Ref!Specified
                    if func in ("argmax", "argmin") and np.isnan(a).any():
                        continue
                    if func in ("nanargmax", "nanargmin") and np.isnan(a).all():
                        continue
                    if func == "nanargmax" and np.isnan(a).any() and np.nanmax(a) == -np.inf:
                        continue    # NumPy: "cannot be trusted" (Ref!Specified)
                    if func == "nanargmin" and np.isnan(a).any() and np.nanmin(a) == np.inf:
                        continue
                    if ("median" in func or "quantile" in func) and np.isinf(a).any():
                        continue
                    if "var" in func and len(a) - ddof <= 0:
                        continue
                    if func == "nanvar" and (~np.isnan(a)).sum() - ddof <= 0:
                        continue
                    r = np_ref(func, a, ddof=ddof, q=q[0] / q[1])
                    out = pv(r, 1e-9)
                    lines.append({"id": len(lines), "func": func, "ddof": ddof, "q": q, "vals": vals, "codes": [0] * len(vals),
                                  "req": {"some": False, "v": []}, "sort": True, "fill": {"some": False, "v": NAN}, "min_count": -1,
                                  "groups": [0], "out": [out], "raw": [out], "gmode": "exact"})
    fails, stats = tlc.validate_trace("TraceReduce", lines, tag="selftest-reduce", shards=8)
    nred = len(lines)
    bad = [(lines[f[1]]["func"], lines[f[1]]["vals"], lines[f[1]]["out"], f[3]) for f in fails]
    # scans
    slines = []
    for vals in gen.seqs_upto([gen.iv(-1), gen.iv(0), gen.iv(2), gen.NAN], 4, 1):
        for codes in ([0] * len(vals), [i % 2 for i in range(len(vals))]):
            a = np.array([to_float(v) for v in vals])
            s = pd.Series(a)
            g = pd.Series(codes)
            for func in ("nancumsum", "ffill", "bfill"):
                if func == "nancumsum":
                    out = np.empty(len(a))
                    for lab in set(codes):
                        m = np.array(codes) == lab
                        out[m] = np.nancumsum(a[m])
                else:
                    out = getattr(s.groupby(g), func)().to_numpy()
                slines.append({"id": len(slines), "kind": "return", "func": func, "vals": vals, "codes": codes, "out": [pv(x) for x in out]})
    sfails, sstats = tlc.validate_trace("TraceScan", slines, tag="selftest-scan", shards=4)
    bad += [(slines[f[1]]["func"], slines[f[1]]["vals"], slines[f[1]]["codes"], slines[f[1]]["out"]) for f in sfails]
    # pandas.cut
    clines = []
    xs = [gen.iv(0), gen.iv(1), gen.iv(2), gen.iv(3), gen.iv(5), gen.iv(-1), gen.iv(6), gen.NAN, gen.PINF, gen.NINF, [5, 2], [9, 2]]
    for edges in ([gen.iv(0), gen.iv(2), gen.iv(5)], [gen.iv(0), gen.iv(1), gen.iv(3), gen.iv(5)], [gen.iv(-1), gen.iv(6)]):
        for right in (True, False):
            e = [to_float(v) for v in edges]
            codes = pd.cut(np.array([to_float(v) for v in xs]), e, right=right, labels=False)
            nb = len(edges) - 1
            out = [[int(sum(1 for c in codes if c == b)), 1] for b in range(nb)]
            clines.append({"id": len(clines), "func": "count", "vals": [gen.iv(1)] * len(xs), "groupers": [{"kind": "bin", "x": xs, "edges": edges, "right": right}],
                           "fill": {"some": True, "v": [0, 1]}, "min_count": -1, "ddof": 0, "out": out, "shape": [nb]})
    cfails, cstats = tlc.validate_trace("TraceMulti", clines, tag="selftest-cut", shards=1)
    bad += [("pandas.cut", clines[f[1]]["groupers"][0]["edges"], clines[f[1]]["groupers"][0]["right"], f[3]) for f in cfails]
    print(f"selftest: {nred} reductions, {len(slines)} scans, {len(clines)} binnings evaluated by TLC against NumPy/pandas; mismatches={len(bad)}")
    for b in bad[:10]:
        print("  ORACLE-MISMATCH", b)
    return 2 if bad else 0


if __name__ == "__main__":
    sys.exit(main())
