#!/bin/sh
# confirm_seed.sh <seed name>... : full confirmation of the named seeded changes in a scratch worktree (never in /repo):
#   the patch applies, the unedited suite still passes (harness/baseline.py --repo; hypothesis example database removed first so
#   that one run's random finding does not leak into the next), demo.py fails with it and passes without it.
# Prints one table row per seed (same columns as seeded/SUITE.md) and replaces that row in seeded/SUITE.md.
wt=/tmp/wt/suite1
git -C /repo worktree remove --force $wt 2>/dev/null
git -C /repo worktree add -q --detach $wt HEAD || exit 2
for n in "$@"; do
  d=/verif/seeded/$n
  git -C $wt checkout -q -- .
  rm -rf $wt/.hypothesis
  if git -C $wt apply $d/patch.diff 2>/dev/null; then ap=yes; else row="| $n | NO | - | - | - |"; echo "$row"; continue; fi
  (cd $wt && DASK_NUM_WORKERS=2 OMP_NUM_THREADS=1 NUMBA_NUM_THREADS=1 PYTHONPATH=$wt timeout 600 /venv/bin/python $d/demo.py >/dev/null 2>&1); dw=$?
  suite=$(DASK_NUM_WORKERS=2 OMP_NUM_THREADS=1 NUMBA_NUM_THREADS=1 /venv/bin/python /verif/harness/baseline.py --repo $wt --jobs 12 2>&1 | grep -E "^baseline:|REGRESSION" | sed 's/baseline: //' | tr '\n' ' ')
  git -C $wt checkout -q -- .
  (cd $wt && DASK_NUM_WORKERS=2 OMP_NUM_THREADS=1 NUMBA_NUM_THREADS=1 PYTHONPATH=$wt timeout 600 /venv/bin/python $d/demo.py >/dev/null 2>&1); dn=$?
  row="| $n | $ap | exit $dw | exit $dn | $suite |"
  echo "$row"
  grep -v "^| $n |" /verif/seeded/SUITE.md > /verif/out/suite.tmp; echo "$row" >> /verif/out/suite.tmp; cp /verif/out/suite.tmp /verif/seeded/SUITE.md
done
git -C /repo worktree remove --force $wt
