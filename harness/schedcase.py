"""C03/C13 worker: one real graph, its tree shape, TLC-generated schedules (with
Lose / re-execution) replayed on the real graph, threaded execution."""
from __future__ import annotations

import json
import os
import random
import re
import subprocess
import tempfile
import warnings

import numpy as np

from . import sched, tlaval
from .graphcase import build
from .project import ProjectionError
from .redcase import label_tokens, project_out

JAR = "/opt/veriftools/tla/tla2tools.jar:/opt/veriftools/tla/CommunityModules-deps.jar"


def tree_levels(graph):
    """for every aggregate node: the levels of ordered leaf sequences below it (leaves renumbered 1..m)"""
    info = {}
    order = sched.topo_order(graph)
    for k in order:
        node = graph[k]
        d = sched.describe(node)
        deps = sched.ordered_deps(node)
        kd = d["kind"]
        if kd == "chunk":
            info[k] = ([k], 0, kd)
        elif kd in ("subset", "identity"):
            src = info.get(deps[0]) if deps else None
            info[k] = (src[0], 0, kd) if src else ([], -1, kd)
        elif kd in ("combine", "aggregate"):
            leaves, lvl = [], 0
            for x in deps:
                if x in info:
                    leaves += info[x][0]
                    lvl = max(lvl, info[x][1])
            info[k] = (leaves, lvl + 1, kd)
    trees = []
    for k, (leaves, lvl, kd) in info.items():
        if kd != "aggregate":
            continue
        # leaves are numbered by their POSITION among the blocks (key order), not by the order the root lists them
        rank = {leaf: i + 1 for i, leaf in enumerate(sorted(set(leaves), key=lambda kk: tuple(kk[1:])))}
        # nodes below this aggregate
        closure, stack = set(), [k]
        while stack:
            x = stack.pop()
            if x in closure:
                continue
            closure.add(x)
            stack.extend(graph[x].dependencies)
        levels = {}
        for x in closure:
            if x in info and info[x][2] in ("combine", "aggregate"):
                levels.setdefault(info[x][1], []).append([rank[leaf] for leaf in info[x][0]])
        lv = [sorted(levels[i], key=lambda s: s[0] if s else 0) for i in sorted(levels)]
        trees.append({"n": len(set(leaves)), "levels": lv})
    return trees


def run_tlc_exec(gjson, mode, n, seed, maxlose=1, impure=0, timeout=240):
    """mode 'check' (exhaustive) or 'simulate' (n behaviours).  Returns dict(states, generated, violated, schedules)"""
    spec_dir = "/verif/spec"
    with tempfile.TemporaryDirectory(prefix="exec-", dir="/verif/out/work") as td:
        gfile = os.path.join(td, "graph.json")
        json.dump(gjson, open(gfile, "w"))
        for f in ("Exec.tla",):
            open(os.path.join(td, f), "w").write(open(os.path.join(spec_dir, f)).read())
        inv = "INVARIANT Confluence\nINVARIANT CountedOnce\nINVARIANT ClosureSound\n"
        if mode == "simulate":
            inv += "INVARIANT EmitSchedule\n"
        cfg = f"SPECIFICATION Spec\nCHECK_DEADLOCK FALSE\nCONSTANTS MaxLose = {maxlose}\nImpureTask = {impure}\nVIEW View\n{inv}"
        open(os.path.join(td, "Exec.cfg"), "w").write(cfg)
        cmd = ["java", "-Xmx1500m", "-XX:+UseParallelGC", "-cp", JAR, "tlc2.TLC", "-workers", "2" if mode == "check" else "1",
               "-metadir", os.path.join(td, "m"), "-noGenerateSpecTE", "-config", "Exec.cfg"]
        if mode == "simulate":
            cmd += ["-simulate", f"num={n}", "-depth", str(4 * gjson["n"] + 10), "-seed", str(seed)]
        cmd += ["Exec.tla"]
        env = dict(os.environ, GRAPH_FILE=gfile)
        try:
            p = subprocess.run(cmd, cwd=td, env=env, stdout=subprocess.PIPE, stderr=subprocess.STDOUT, text=True, timeout=timeout)
            out = p.stdout
            timed_out = False
        except subprocess.TimeoutExpired as e:
            out = e.stdout.decode() if isinstance(e.stdout, bytes) else (e.stdout or "")
            timed_out = True
    res = {"mode": mode, "timed_out": timed_out, "violated": None, "states": 0, "generated": 0, "schedules": []}
    m = None
    for m in re.finditer(r"(\d+) states generated, (\d+) distinct states found", out):
        pass
    if m:
        res["generated"], res["states"] = int(m.group(1)), int(m.group(2))
    else:
        m = re.search(r"(\d+) states checked", out)
        if m:
            res["generated"] = res["states"] = int(m.group(1))
    m = re.search(r"Invariant (\w+) is violated", out) or re.search(r"The invariant of (\w+) is equal to FALSE", out)
    if m:
        res["violated"] = m.group(1)
    for mm in re.finditer(r'<<\s*"SCHED"', out):
        try:
            v, _ = tlaval.parse_prefix(out, mm.start())
            res["schedules"].append([(a, i) for a, i in v[1]])
        except Exception:
            pass
    if not timed_out and res["generated"] == 0 and not res["violated"]:
        res["error"] = out[-1500:]
    return res


def run_sched_case(case: dict) -> dict:
    import dask

    warnings.filterwarnings("ignore")
    rec = {"case": case}
    if case.get("scan"):
        return run_sched_scan_case(case)
    try:
        result, groups, kind = build(case)
    except Exception as e:  # noqa: BLE001
        rec.update(exc=type(e).__name__, msg=str(e)[:300], phase="call")
        return rec
    if not hasattr(result, "dask"):
        rec["notlazy"] = True
        return rec
    try:
        graph = sched.graph_of(result)
        # which layer holds the value array's blocks: the first dependency of the chunk tasks (or of the arg-reduction zip)
        val_name = None
        for k, node in graph.items():
            d = sched.describe(node)
            if d["kind"] in ("chunk", "blockwise"):
                first = sched.ordered_deps(node)[0]
                fn = graph[first]
                if sched.describe(fn)["kind"] == "data":
                    val_name = first[0]
                else:  # arg-reductions: zipped (array, index) block
                    val_name = sched.ordered_deps(fn)[0][0]
                break
        outputs = [k for k in np.asarray(result.__dask_keys__(), dtype=object).reshape(-1, len(result.__dask_keys__()[0]) if False else 1).ravel()] if False else list(dask.core.flatten(result.__dask_keys__()))
        codes, chunks = case["codes"], case["chunks"]
        blocklabels, pos = [], 0
        for n in chunks:
            blocklabels.append(sorted({c for c in codes[pos:pos + n] if c >= 0}))
            pos += n
        sync_res, sync_groups = dask.compute(result, groups, scheduler="synchronous")
        gtok = label_tokens(sync_groups[0] if isinstance(sync_groups, tuple) else sync_groups, kind)
        och = result.chunks[-1]
        outlabels = []
        if any(isinstance(c, float) and np.isnan(c) for c in och) or sum(och) != len(gtok):
            outlabels = [[t for t in gtok if t >= 0]] + [[] for _ in och[1:]]
        else:
            p = 0
            for c in och:
                outlabels.append([t for t in gtok[p:p + int(c)] if t >= 0])
                p += int(c)
        # provenance is only meaningful in code space when the labels are the codes; map tokens via identity
        if val_name is None:
            raise RuntimeError("could not locate the value array's blocks in the graph")
        gjson, order_keys = sched.export_graph(graph, val_name, outputs, blocklabels, outlabels)
        rec["ntasks"] = sum(1 for p in gjson["pre"] if not p)
        rec["trees"] = [dict(t, k=case.get("split_every") or 4) for t in tree_levels(graph)]
        # (1) exhaustive schedule space when small, (2) simulated schedules for the replay
        exh = None
        if rec["ntasks"] <= case.get("exhaustive_upto", 11):
            exh = run_tlc_exec(gjson, "check", 0, 0, maxlose=1)
        sim = run_tlc_exec(gjson, "simulate", case.get("nsched", 6), case.get("order_seed", 0) + 1, maxlose=2)
        rec["tlc"] = {"exhaustive": {k: v for k, v in (exh or {}).items() if k != "schedules"}, "simulate": {k: v for k, v in sim.items() if k != "schedules"}}
        first = {}
        mism = []
        finals = set()
        for s in sim["schedules"]:
            store, mm = sched.run_schedule(graph, order_keys, s, first)
            mism += mm
            finals.add(sched.digest([store[k] for k in outputs]))
        rec["schedules_replayed"] = len(sim["schedules"])
        rec["digest_mismatches"] = mism[:5]
        rec["distinct_finals"] = len(finals)
        # threaded scheduler
        thr = []
        for _ in range(case.get("nthreaded", 2)):
            r2 = dask.compute(result, scheduler="threads", num_workers=8)[0]
            thr.append(sched.digest(np.asarray(r2)))
        rec["threaded_equal"] = all(t == sched.digest(np.asarray(sync_res)) for t in thr)
        rec["groups"] = gtok
        rec["out"] = project_out(case["func"], sync_res)
    except ProjectionError as e:
        rec.update(exc="ProjectionError", msg=str(e))
    except Exception as e:  # noqa: BLE001
        import traceback

        rec.update(exc=type(e).__name__, msg=str(e)[:300], phase="compute", tb=traceback.format_exc()[-800:])
    return rec


def run_sched_scan_case(case: dict) -> dict:
    """the scan flavour: TLC-generated schedules (RunTask / Lose / re-execution) replayed on the real
    dask_groupby_scan graph, threaded runs, final values for TraceScan"""
    import dask

    from .project import pv_out
    from .scancase import build_scan

    rec = {"case": case}
    try:
        result = build_scan(case)
    except Exception as e:  # noqa: BLE001
        rec.update(exc=type(e).__name__, msg=str(e)[:300], phase="call")
        return rec
    if not hasattr(result, "dask"):
        rec["notlazy"] = True
        return rec
    try:
        graph = sched.graph_of(result)
        outputs = list(dask.core.flatten(result.__dask_keys__()))
        gjson, order_keys = sched.export_graph(graph, "__no_value_layer__", outputs, [], [[] for _ in outputs])
        rec["ntasks"] = sum(1 for p in gjson["pre"] if not p)
        rec["trees"] = []
        sim = run_tlc_exec(gjson, "simulate", case.get("nsched", 6), case.get("order_seed", 0) + 1, maxlose=2)
        rec["tlc"] = {"exhaustive": {}, "simulate": {k: v for k, v in sim.items() if k != "schedules"}}
        first, mism, finals = {}, [], set()
        for s in sim["schedules"]:
            store, mm = sched.run_schedule(graph, order_keys, s, first)
            mism += mm
            finals.add(sched.digest([store[k] for k in outputs]))
        rec["schedules_replayed"] = len(sim["schedules"])
        rec["digest_mismatches"] = mism[:5]
        rec["distinct_finals"] = len(finals)
        sync_res = result.compute(scheduler="synchronous")
        thr = [sched.digest(np.asarray(result.compute(scheduler="threads", num_workers=8))) for _ in range(case.get("nthreaded", 2))]
        rec["threaded_equal"] = all(t == sched.digest(np.asarray(sync_res)) for t in thr)
        rec["scan_out"] = [pv_out(x, 1e-9) for x in np.asarray(sync_res).reshape(-1)]
    except Exception as e:  # noqa: BLE001
        import traceback

        rec.update(exc=type(e).__name__, msg=str(e)[:300], phase="compute", tb=traceback.format_exc()[-800:])
    return rec
