#!/bin/sh
# "A fixed entry suppresses nothing": for every `fixed:` line of known_findings.txt, undo that fix: commit in /repo's
# working tree (reverse patch, never committed), run the quick check of the property the line names, and expect a
# VIOLATION (exit 1).  Restores /repo afterwards.  Writes seeded/FIXREVERTS.md.
# Usage: harness/fix_reverts.sh            (do not run while other checks use /repo)
cd /verif || exit 2
out=seeded/FIXREVERTS.md
if [ -n "$(git -C /repo status --porcelain)" ]; then echo "/repo is not clean"; exit 2; fi
echo "# Reverting each recorded fix must make the owning check fail again (/repo HEAD $(git -C /repo log --format=%h -1))" > $out
echo "" >> $out
echo "| fix commit | property | reverse patch applies | check exit | first alarm |" >> $out
echo "|---|---|---|---|---|" >> $out
grep '^fixed:' known_findings.txt | sed 's/^fixed: property=\([A-Z0-9]*\) \([0-9a-f]*\) .*/\1 \2/' | sort -u | while read prop commit; do
  git -C /repo diff "$commit^" "$commit" -- flox > /verif/out/revert.diff
  if git -C /repo apply -R /verif/out/revert.diff 2>/dev/null; then ap=yes
  elif git -C /repo apply -R --3way /verif/out/revert.diff 2>/dev/null; then ap="yes (3-way)"
  else echo "| $commit | $prop | NO (later fixes touch the same lines) | - | - |" >> $out; git -C /repo checkout -q -- . ; continue; fi
  log=$(./check $prop 2>&1); rc=$?
  first=$(echo "$log" | grep -m1 -E '^VIOLATION|^MACHINERY' | cut -c1-160)
  git -C /repo reset -q; git -C /repo checkout -q -- .
  echo "| $commit | $prop | $ap | $rc | $first |" >> $out
done
rm -f /verif/out/revert.diff
# the reverted runs rewrote evidence files: refresh them on the restored tree
cat $out
