"""Task-by-task execution of the real graph of one chunked call and projection of
every flox task to a `Task` record for spec/TraceGraph.tla."""
from __future__ import annotations

import math
import random
import warnings

import numpy as np

from . import sched
from .project import ProjectionError, pv
from .redcase import LABELS, build_kwargs, concretize, label_array, label_tokens, project_out


def _lab(g, raw_kind):
    """a group label of an IR -> integer token (code space, or label tokens for raw labels)"""
    if isinstance(g, (float, np.floating)) and math.isnan(g):
        return None
    if raw_kind is not None:
        tab = LABELS[raw_kind]
        try:
            return tab.index(g.item() if hasattr(g, "item") else g)
        except ValueError:
            return -99
    return int(g)


def pvi(x, tol=1e-9):
    """intermediate value: integer sentinels (iinfo min/max) act as -inf/+inf (see sched.project_fill)"""
    if isinstance(x, (int, np.integer)) and not isinstance(x, (bool, np.bool_)):
        xi = int(x)
        if xi >= 2**31 - 1:
            return [1, 0]
        if xi <= -(2**31) + 1:
            return [-1, 0]
    if isinstance(x, (float, np.floating)) and np.isfinite(x) and abs(float(x)) > 2**31:
        return [(-1 if x < 0 else 1) * 2**30, 1]     # huge finite sentinel, same abstraction as sched.project_fill
    return pv(x, tol)


def project_ir(d, raw_kind, tol=1e-9):
    groups = np.asarray(d["groups"])
    groups = groups.reshape(-1)
    toks = [_lab(g, raw_kind) for g in groups.tolist()]
    keep = [i for i, t in enumerate(toks) if t is not None]
    inter = []
    for v in d["intermediates"]:
        a = np.asarray(v).reshape(-1)
        if a.size != groups.size:
            raise ProjectionError(f"intermediate of size {a.size} for {groups.size} groups")
        inter.append([pvi(a[i], tol) for i in keep])
    return {"groups": [toks[i] for i in keep], "inter": inter}


def project_final(d, name, raw_kind, func, tol=1e-9):
    groups = np.asarray(d["groups"]).reshape(-1)
    toks = [_lab(g, raw_kind) for g in groups.tolist()]
    keep = [i for i, t in enumerate(toks) if t is not None]
    res = np.asarray(d[name]).reshape(-1)
    if res.size != groups.size:
        raise ProjectionError(f"result of size {res.size} for {groups.size} groups")
    out = project_out(func, res, tol)
    return {"groups": [toks[i] for i in keep], "result": [out[i] for i in keep]}


def _expected(e):
    if e is None:
        return {"some": False, "v": []}
    return {"some": True, "v": [int(x) for x in np.asarray(e).tolist()]}


def _rs_blockwise(rs):
    return bool(getattr(rs, "blockwise", rs))


def build(case):
    import dask
    import dask.array as da

    from flox.core import groupby_reduce

    kind = case.get("label_kind", "int")
    array = concretize(case["vals"], case.get("dtype", "f8"))
    by = label_array(case["codes"], kind)
    kw = build_kwargs(case)
    chunks = tuple(case["chunks"])
    arr = da.from_array(array, chunks=(chunks,))
    byy = da.from_array(by, chunks=(chunks,)) if case.get("by_dask") else by
    cfg = {}
    if case.get("split_every"):
        cfg["split_every"] = case["split_every"]
    with dask.config.set(**cfg):
        result, groups = groupby_reduce(arr, byy, **kw)
    return result, groups, kind


def run_graph_case(case: dict) -> dict:
    """returns {'case', 'tasks': [records], 'final': {...}} or {'exc':...}"""
    warnings.filterwarnings("ignore")
    rec = {"case": case}
    try:
        result, groups, kind = build(case)
    except Exception as e:  # noqa: BLE001
        rec["exc"] = type(e).__name__
        rec["msg"] = str(e)[:300]
        rec["phase"] = "call"
        return rec
    if not hasattr(result, "dask"):
        rec["notlazy"] = True
        return rec
    colls = [result] + [g for g in (groups if isinstance(groups, tuple) else (groups,)) if hasattr(g, "dask")]
    graph = sched.graph_of(*colls)
    rng = random.Random(case.get("order_seed", 0)) if case.get("order_seed") is not None else None
    order = sched.topo_order(graph, rng)
    raw_kind = kind if (case.get("by_dask") and case.get("req") is None) else None
    func = case["func"]
    tasks = []
    keyid = {}

    def kid(k):
        return keyid.setdefault(k, len(keyid))

    def on_task(k, node, store, out):
        d = sched.describe(node)
        deps = sched.ordered_deps(node)
        kd = d["kind"]
        try:
            if kd == "chunk":
                a = store[deps[0]]
                b = store[deps[1]]
                start = 0
                idxl = []
                if isinstance(a, tuple):
                    a, idx = a
                    idxl = [int(x) for x in np.asarray(idx).reshape(-1).tolist()]
                    start = idxl[0] if idxl else 0
                blk = int(k[-1]) if isinstance(k, tuple) else 0
                offset = int(sum(case["chunks"][:blk]))
                agg = None
                vals = [pv(x) for x in np.asarray(a).reshape(-1)]
                bb = np.asarray(b).reshape(-1)
                codes = label_tokens(bb, raw_kind) if raw_kind is not None else [int(x) for x in bb.tolist()]
                tasks.append({
                    "kind": "chunk", "k": kid(k), "vals": vals, "codes": codes, "start": start,
                    "hasidx": bool(idxl), "idx": idxl, "offset": offset,
                    "p": {"reindex": bool(d["reindex"]), "expected": _expected(d["expected"])["v"] if d["reindex"] else [],
                          "dropMissing": bool(d["reindex"]) or raw_kind is not None,
                          "nanKeepsNaN": d.get("engine") == "numbagg"},
                    "chunkfuncs": [f if isinstance(f, str) else "callable" for f in d["func"]],
                    "out": project_ir(out, raw_kind),
                })
            elif kd == "blockwise" and not _rs_blockwise(d["reindex"]) and d.get("expected") is None:
                a = store[deps[0]]
                b = store[deps[1]]
                agg = d["agg"]
                blk = int(k[-1]) if isinstance(k, tuple) else 0
                vals = [pv(x) for x in np.asarray(a).reshape(-1)]
                codes = [int(x) for x in np.asarray(b).reshape(-1).tolist()]
                tasks.append({
                    "kind": "blockwise", "k": kid(k), "agg": sched.project_agg(agg), "vals": vals, "codes": codes,
                    "p": {"sort": bool(d.get("sort", True)), "start": int(sum(case["chunks"][:blk]))},
                    "out": project_final(out, agg.name, raw_kind, func),
                })
            elif kd == "subset":
                tasks.append({
                    "kind": "subset", "k": kid(k), "agg": sched.project_agg(d["agg"]),
                    "ins": [project_ir(store[deps[0]], raw_kind)],
                    "p": {"to": [int(x) for x in np.asarray(d["to"]).tolist()]},
                    "out": project_ir(out, raw_kind),
                })
            elif kd == "combine":
                ins = [project_ir(store[x], raw_kind) for x in deps]
                tasks.append({
                    "kind": "combine", "k": kid(k), "agg": sched.project_agg(d["agg"]), "ins": ins,
                    "p": {"simple": bool(d["simple"]), "reindexBlockwise": _rs_blockwise(d["reindex"]) if d["simple"] else False,
                          "nanKeepsNaN": d.get("engine") == "numbagg"},
                    "out": project_ir(out, raw_kind),
                })
            elif kd == "aggregate":
                ins = [project_ir(store[x], raw_kind) for x in deps]
                agg = d["agg"]
                rb = _rs_blockwise(d["reindex"])
                exp = d["expected"]
                tasks.append({
                    "kind": "aggregate", "k": kid(k), "agg": sched.project_agg(agg), "ins": ins,
                    "p": {"simple": bool(d["simple"]), "reindexBlockwise": rb if d["simple"] else False,
                          "finalReindex": (not rb) and exp is not None, "expected": _expected(exp)["v"],
                          "nanKeepsNaN": d.get("engine") == "numbagg"},
                    "out": project_final(out, agg.name, raw_kind, func),
                })
        except ProjectionError as e:
            tasks.append({"kind": "projection-error", "k": kid(k), "msg": str(e)})

    try:
        store = sched.execute(graph, order, on_task=on_task)
        import dask

        # the assembled final result (post-processing in groupby_reduce included)
        res_val, grp_val = dask.compute(result, groups, scheduler="synchronous")
        rec["groups"] = label_tokens(grp_val[0] if isinstance(grp_val, tuple) else grp_val, kind)
        rec["out"] = project_out(func, res_val)
    except ProjectionError as e:
        rec["exc"] = "ProjectionError"
        rec["msg"] = str(e)
        return rec
    except Exception as e:  # noqa: BLE001
        rec["exc"] = type(e).__name__
        rec["msg"] = str(e)[:300]
        rec["phase"] = "compute"
        return rec
    # chunk records need the blueprint: take it from any combine/aggregate record of this graph
    agg = next((t["agg"] for t in tasks if "agg" in t), None)
    for t in tasks:
        if t["kind"] == "chunk":
            t["agg"] = agg
    rec["tasks"] = [t for t in tasks if t.get("agg") is not None or t["kind"] == "projection-error"]
    rec["ntasks"] = len(graph)
    return rec
