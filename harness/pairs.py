"""C14 workers: pair / triple co-computation and call histories."""
from __future__ import annotations

import json
import os
import subprocess
import sys
import warnings

import numpy as np

from . import apicalls, sched


def _store_digests(graph):
    st = sched.execute(graph)
    return {k: sched.digest(v) for k, v in st.items()}


def run_pair_case(case):
    import dask

    warnings.filterwarnings("ignore")
    out = dict(case)
    try:
        store = apicalls.arrays()
        for cfg in (case["a"], case["b"], case.get("c") or {}):
            apicalls.prepare(cfg)
        obj0 = apicalls.objects_snapshot()
        ra = apicalls.make(case["a"], store)
        rb = apicalls.make(case["b"], store)
        ka, kb = apicalls.flox_keys(ra), apicalls.flox_keys(rb)
        out["families_a"] = sorted(ka)
        changed, observed = [], []
        for f in apicalls.FAMILIES:
            if f in ka and f in kb and f != "other":
                observed.append(f)
                if not (ka[f] & kb[f]):
                    changed.append(f)
        out["observed"], out["changed"] = observed, changed
        ga, gb = sched.graph_of(ra), sched.graph_of(rb)
        shared = [k for k in ga if k in gb and apicalls.family(k) != "other"]
        da_, db_ = _store_digests(ga), _store_digests(gb)
        out["conflicts"] = [str(k) for k in shared if da_[k] != db_[k]][:5]
        out["nshared"] = len(shared)
        sa, sb = ra.compute(scheduler="synchronous"), rb.compute(scheduler="synchronous")
        t1 = dask.compute(ra, rb, scheduler="synchronous")
        t2 = dask.compute(rb, ra, scheduler="synchronous")
        eq = lambda x, y: np.array_equal(np.asarray(x), np.asarray(y), equal_nan=True) and np.asarray(x).dtype == np.asarray(y).dtype  # noqa: E731
        out["together_equal"] = bool(eq(t1[0], sa) and eq(t1[1], sb) and eq(t2[0], sb) and eq(t2[1], sa))
        if case.get("c") is not None:
            rc = apicalls.make(case["c"], store)
            sc = rc.compute(scheduler="synchronous")
            t3 = dask.compute(rc, ra, rb, scheduler="synchronous")
            out["together_equal"] = bool(out["together_equal"] and eq(t3[0], sc) and eq(t3[1], sa) and eq(t3[2], sb))
        out["args_unchanged"] = all(np.array_equal(store[k], v, equal_nan=True) for k, v in apicalls.arrays().items())
        out["args_unchanged"] = bool(out["args_unchanged"] and obj0 == apicalls.objects_snapshot())
    except Exception as e:  # noqa: BLE001
        out.update(exc=type(e).__name__, msg=str(e)[:200])
    return out


HIST_SCRIPT = r'''
import json, sys, warnings
warnings.filterwarnings("ignore")
sys.path.insert(0, "/verif"); sys.path.insert(0, "/repo")
import numpy as np
from harness import apicalls
calls = json.loads(sys.argv[1]); seq = json.loads(sys.argv[2])
store = apicalls.arrays()
reg0 = apicalls.registry_snapshot()
events = []
for idx in seq:
    cfg = calls[idx]
    apicalls.prepare(cfg)
    before = {k: apicalls.digest_arr(v) for k, v in store.items()}
    obj_before = apicalls.objects_snapshot()
    exp_before = None if cfg.get("expected") is None else list(cfg["expected"])
    try:
        r = apicalls.make(cfg, store)
        if hasattr(r, "compute"):
            r = r.compute(scheduler="synchronous")
        dig = apicalls.digest_arr(r)
    except Exception as e:
        dig = "EXC:" + type(e).__name__
    after = {k: apicalls.digest_arr(v) for k, v in store.items()}
    events.append({"call": idx, "dig": dig, "args_unchanged": before == after and (exp_before is None or exp_before == list(cfg["expected"])) and obj_before == apicalls.objects_snapshot(),
                   "registry_unchanged": apicalls.registry_snapshot() == reg0})
print("EVENTS " + json.dumps(events))
'''


def run_history_case(case):
    env = dict(os.environ, PYTHONPATH="/repo:/verif", PYTHONHASHSEED="0", PYTHONWARNINGS="ignore")
    p = subprocess.run(["/venv/bin/python", "-c", HIST_SCRIPT, json.dumps(case["calls"]), json.dumps(case["seq"])], env=env,
                       stdout=subprocess.PIPE, stderr=subprocess.PIPE, text=True, timeout=600)
    out = dict(seq=case["seq"])
    for line in p.stdout.splitlines():
        if line.startswith("EVENTS "):
            out["events"] = json.loads(line[7:])
    if "events" not in out:
        out["exc"] = "HistoryProcessFailed"
        out["msg"] = (p.stderr or p.stdout)[-400:]
    return out
