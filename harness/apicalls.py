"""A small library of API calls that differ pairwise in exactly one ingredient
(C14).  Used for (i) call histories replayed in fresh processes, (ii) pair /
triple co-computation, (iii) extraction of the key-name dependency matrix
(gen/NameDeps.tla)."""
from __future__ import annotations

import copy
import hashlib
import json

import numpy as np

A1 = np.array([1.0, 2.0, 4.0, np.nan, 16.0, 32.0])
A2 = np.array([5.0, -4.0, 3.0, 2.0, np.nan, 0.0])
L1 = np.array([0, 1, 0, 1, 2, 2])
L2 = np.array([2, 2, 1, 0, 1, 0])
L_CONF = np.array([0, 0, 1, 1, 2, 2])
A3 = np.array([3, -1, 4, 1, -5, 9])          # integer data

BASE = dict(array="A1", labels="L1", func="nanvar", ddof=0, q=None, min_count=1, fill_value=np.nan, dtype=None, method="map-reduce",
            engine="numpy", sort=True, reindex=None, expected=[0, 1, 2], chunks=2)
VARIANTS = {
    "array": dict(array="A2"), "labels": dict(labels="L2"), "func": dict(func="nanstd"), "ddof": dict(ddof=1), "min_count": dict(min_count=2),
    "fill_value": dict(fill_value=-1.0), "dtype": dict(dtype="float32"), "method": dict(method="cohorts"), "engine": dict(engine="flox"),
    "sort": dict(sort=False), "reindex": dict(reindex=False), "expected": dict(expected=[0, 1, 2, 3]), "chunks": dict(chunks=3),
}
# other families: quantiles (q), arg-reductions and scans (auxiliary layers)
QBASE = dict(BASE, func="nanquantile", labels="L_CONF", method="blockwise", q=0.25, ddof=None, min_count=None)
ARGBASE = dict(BASE, func="nanargmax", min_count=None, fill_value=-1, ddof=None)
SCANBASE = dict(api="scan", array="A1", labels="L1", func="nancumsum", chunks=2)
UNKBASE = dict(BASE, expected=None, by_dask=True, fill_value=None, min_count=None, func="nansum", ddof=None, with_groups=True)


def arrays():
    return {"A1": A1.copy(), "A2": A2.copy(), "L1": L1.copy(), "L2": L2.copy(), "L_CONF": L_CONF.copy(), "A3": A3.copy()}


_OBJECTS = {}


def func_object(spec):
    """an Aggregation INSTANCE, the same object for every call of the process: 'registry:<name>' is the library's own
    blueprint (flox.aggregations.AGGREGATIONS[name]) handed in as an object, 'user:<name>' a user-defined aggregation"""
    if spec not in _OBJECTS:
        kind, name = spec.split(":")
        if kind == "registry":
            from flox.aggregations import AGGREGATIONS

            _OBJECTS[spec] = AGGREGATIONS[name]
        else:
            from . import userlib

            _OBJECTS[spec] = userlib.USER_AGGS[name][0]
    return _OBJECTS[spec]


def arg_object(spec):
    """other mutable objects a caller may hand in, the SAME object for every call of the process: a ReindexStrategy
    ('strategy:none'), expected_groups as a pandas Index ('index:unsorted'), a finalize_kwargs dict ('fk:ddof1')"""
    if spec not in _OBJECTS:
        if spec == "strategy:none":
            from flox.core import ReindexStrategy

            _OBJECTS[spec] = ReindexStrategy(blockwise=None)
        elif spec == "index:unsorted":
            import pandas as pd

            _OBJECTS[spec] = pd.Index([2, 0, 1, 3])
        elif spec == "fk:ddof1":
            _OBJECTS[spec] = {"ddof": 1}
        else:
            raise KeyError(spec)
    return _OBJECTS[spec]


def prepare(cfg):
    """create (once per process) the argument objects a call refers to, so that a snapshot taken before the call sees them"""
    if cfg.get("func_obj"):
        func_object(cfg["func_obj"])
    for k in ("reindex_obj", "expected_obj", "fk_obj"):
        if cfg.get(k):
            arg_object(cfg[k])


def objects_snapshot() -> str:
    """structural snapshot of every object (Aggregation instance, ReindexStrategy, Index, dict) handed to flox so far"""
    parts = []
    for k in sorted(_OBJECTS):
        o = _OBJECTS[k]
        if isinstance(o, dict) or not hasattr(o, "__dict__") or k.startswith("index:"):
            parts.append((k, repr(o if isinstance(o, dict) else list(o))))
        else:
            parts.append((k, {kk: repr(vv) for kk, vv in sorted(vars(o).items())}))
    return hashlib.sha1(json.dumps(parts, sort_keys=True).encode()).hexdigest()[:16]


def make(cfg, store=None):
    """build the (lazy) result of one call; store holds the argument buffers so that mutations can be detected"""
    import dask.array as da

    from flox.core import groupby_reduce, groupby_scan

    store = store if store is not None else arrays()
    arr = da.from_array(store[cfg["array"]], chunks=cfg["chunks"]) if cfg.get("chunks") else store[cfg["array"]]
    by = store[cfg["labels"]]
    if cfg.get("by_dask"):
        by = da.from_array(by, chunks=cfg["chunks"])
    if cfg.get("api") == "scan":
        return groupby_scan(arr, by, func=cfg["func"])
    kw = dict(func=cfg["func"])
    if cfg.get("func_obj"):
        kw["func"] = func_object(cfg["func_obj"])
    if cfg.get("expected") is not None:
        kw["expected_groups"] = np.array(cfg["expected"])
    for k_src, k_dst in (("min_count", "min_count"), ("fill_value", "fill_value"), ("dtype", "dtype"), ("method", "method"), ("engine", "engine"), ("reindex", "reindex")):
        if cfg.get(k_src) is not None:
            kw[k_dst] = cfg[k_src]
    if cfg.get("sort") is False:
        kw["sort"] = False
    fk = {}
    if cfg.get("ddof") is not None and ("var" in cfg["func"] or "std" in cfg["func"]):
        fk["ddof"] = cfg["ddof"]
    if cfg.get("q") is not None:
        fk["q"] = cfg["q"]
    if fk:
        kw["finalize_kwargs"] = fk
    if cfg.get("reindex_obj"):
        kw["reindex"] = arg_object(cfg["reindex_obj"])
    if cfg.get("expected_obj"):
        kw["expected_groups"] = arg_object(cfg["expected_obj"])
    if cfg.get("fk_obj"):
        kw["finalize_kwargs"] = arg_object(cfg["fk_obj"])
    res = groupby_reduce(arr, by, **kw)
    if cfg.get("with_groups"):
        # the labels belong to the result: for chunked labels without expected_groups they are lazy too
        import dask.array as _da

        g = res[1]
        return _da.concatenate([res[0].astype(float), _da.asarray(g).astype(float)]) if hasattr(res[0], "dask") else np.concatenate([np.asarray(res[0], float), np.asarray(g, float)])
    return res[0]


def digest_arr(x) -> str:
    x = np.asarray(x)
    return hashlib.sha1(repr((str(x.dtype), x.shape, np.nan_to_num(x.astype(float), nan=-12345.678).round(9).tolist())).encode()).hexdigest()[:16]


def registry_snapshot() -> str:
    from flox.aggregations import AGGREGATIONS

    parts = []
    for k in sorted(AGGREGATIONS):
        a = AGGREGATIONS[k]
        d = {kk: repr(vv) for kk, vv in sorted(vars(a).items())}
        parts.append((k, d))
    return hashlib.sha1(json.dumps(parts, sort_keys=True).encode()).hexdigest()[:16]


FAMILIES = ["chunk", "tree", "cohort_subset", "cohort_reduce", "argpre", "scanpre", "scan", "unknown_groups", "extract", "other"]


def family(key) -> str:
    name = key[0] if isinstance(key, tuple) else key
    if not isinstance(name, str):
        return "other"
    if name.startswith("groupby-cohort-"):
        return "cohort_subset"
    if name.startswith("groupby-argreduce-preprocess"):
        return "argpre"
    if name.startswith("groupby-scan-preprocess"):
        return "scanpre"
    if name.startswith("group-"):
        return "unknown_groups"
    if name.startswith(("chunk_scan", "grouped_reduce", "scan_binary_op", "_finalize_scan", "cumreduction", "scan-")):
        return "scan"
    if name.startswith("groupby_"):
        if "-chunk-" in name:
            return "chunk"
        if "-simple-reduce" in name:
            return "tree"
        if "-reduce-cohorts-" in name:
            return "cohort_reduce"
        return "extract"
    return "other"


def flox_keys(coll):
    """keys of the graph grouped by layer family (input-array and rechunk layers are 'other')"""
    out = {}
    for k in dict(coll.__dask_graph__()):
        out.setdefault(family(k), set()).add(k)
    return out
