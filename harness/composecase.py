"""spec -> code for the composed specification spec/Flox.tla.

TLC (-simulate) walks Flox.tla: input -> Call -> Factorize -> Plan -> Execute ->
Finish and prints every finished behaviour (`Emit`): the input, the call's
configuration, and what the specification says the call must do — the output
labels (Factorize.tla), the refusal or the resolved strategy / reindex mode
(Cohorts.tla + Plan.tla), and the value of every output slot (Aggs.tla over the
live blueprint table).  Each behaviour is replayed into the real
flox.groupby_reduce and compared step by step:
  refusal        spec says refused  <=> the call raises that clean error      (C19)
  labels         returned labels = fact.groups                                 (C05/C16)
  result         every specified slot equals the specification's value         (C02)
  plan           strategy / reindex mode recorded by the hook = plan           (model drift only)
"""
from __future__ import annotations

import json
import os
import subprocess
import tempfile

from . import tlaval
from .tlc import JAR

NAMES = ["nansum", "nanmax", "nanmean", "argmax", "nanargmin", "nanfirst", "nanlast", "count", "nanvar", "sum", "max", "mean", "nanprod", "var"]

CFG = """SPECIFICATION Spec
CHECK_DEADLOCK FALSE
CONSTANTS MaxLen = {maxlen}
MinLen = {minlen}
NLabels = {nlabels}
SplitEvery = {se}
Wide = {wide}
Reindexes = {{{reindexes}}}
ByDasks = {{{bydasks}}}
NLabels2 = {nlabels2}
ArrDasks = {{{arrdasks}}}
Engines = {{{engines}}}
Names = {{{names}}}
"""


def _workdir(td):
    import shutil
    from pathlib import Path

    for d in ("/verif/spec", "/verif/gen"):
        for f in Path(d).glob("*.tla"):
            shutil.copy(f, os.path.join(td, f.name))


def simulate(n: int, seed: int, *, maxlen=5, minlen=None, nlabels=3, se=2, wide=True, names=NAMES, timeout=900,
             reindexes=("none", "true", "false"), bydasks=(False, True), nlabels2=2,
             arrdasks=(True, True, False), engines=("none", "numpy", "flox", "numbagg")) -> tuple[list, dict]:
    """n behaviours of Flox.tla (one TLC -simulate run, single worker: PrintT lines stay whole)"""
    cfg = CFG.format(maxlen=maxlen, minlen=maxlen if minlen is None else minlen, nlabels=nlabels, se=se,
                     wide="TRUE" if wide else "FALSE", names=", ".join(json.dumps(x) for x in names),
                     reindexes=", ".join(json.dumps(x) for x in reindexes), bydasks=", ".join("TRUE" if b else "FALSE" for b in bydasks), nlabels2=nlabels2,
                     arrdasks=", ".join(sorted({"TRUE" if b else "FALSE" for b in arrdasks})), engines=", ".join(json.dumps(x) for x in engines))
    cfg += "INVARIANT Emit\nINVARIANT Inv_Result\nINVARIANT Inv_CleanRefusal\nINVARIANT Inv_AutoPlanSound\n"
    os.makedirs("/verif/out/work", exist_ok=True)
    with tempfile.TemporaryDirectory(prefix="flox-sim-", dir="/verif/out/work") as td:
        _workdir(td)
        open(os.path.join(td, "Flox.cfg"), "w").write(cfg)
        cmd = ["java", "-Xmx1500m", "-XX:+UseParallelGC", "-cp", JAR, "tlc2.TLC", "-workers", "1", "-metadir", os.path.join(td, "m"),
               "-noGenerateSpecTE", "-config", "Flox.cfg", "-simulate", f"num={n}", "-depth", str(maxlen + 9), "-seed", str(seed), "Flox.tla"]
        try:
            p = subprocess.run(cmd, cwd=td, stdout=subprocess.PIPE, stderr=subprocess.STDOUT, text=True, timeout=timeout)
            out = p.stdout
        except subprocess.TimeoutExpired as e:
            out = e.stdout.decode() if isinstance(e.stdout, bytes) else (e.stdout or "")
    import re

    info = {"violated": None, "states": 0, "tail": out[-1200:]}
    m = re.search(r"Invariant (\w+) is violated", out)
    if m:
        info["violated"] = m.group(1)
        from .tlc import parse_error_trace

        tr = parse_error_trace(out)
        info["state"] = tr[-1] if tr else None
    m = re.search(r"(\d+) states checked", out)
    if m:
        info["states"] = int(m.group(1))
    behs = []
    for mm in re.finditer(r'<<\s*"BEH"', out):
        v, _ = tlaval.parse_prefix(out, mm.start())
        _, vals, labs, labs2, cuts, cfgv, groups, plan, result, pref, sizes, codes, engine, ncoh = v
        behs.append({"vals": vals, "labs": labs, "labs2": labs2, "nlabels2": nlabels2, "cuts": cuts, "cfg": cfgv, "groups": groups, "plan": plan, "result": result,
                     "pref": pref, "ncohorts": ncoh, "engine": engine, "sizes": list(sizes), "codes": list(codes), "nlabels": nlabels, "se": se})
    return behs, info


def chunks_of(cuts):
    out, run = [], 0
    for i, c in enumerate(cuts):
        run += 1
        if c or i == len(cuts) - 1:
            out.append(run)
            run = 0
    return out


def case_of(beh, table):
    row = table[beh["cfg"]["row"] - 1]
    nl = beh["nlabels"]
    method = beh["cfg"]["method"]
    case = {
        "func": row["name"], "vals": [list(v) for v in beh["vals"]], "dtype": "f8", "codes": list(beh["labs"]), "label_kind": "float",
        "chunks": chunks_of(beh["cuts"]), "method": None if method == "none" else method, "sort": bool(beh["cfg"]["sort"]),
        "ddof": row["ddof"] or None, "split_every": beh["se"],
        "reindex": {"none": None, "true": True, "false": False}[beh["cfg"].get("reindex", "none")], "by_dask": bool(beh["cfg"].get("byDask", False)),
    }
    if not beh["cfg"].get("arrDask", True):
        case["chunks"] = None
    if beh["cfg"].get("engine", "none") != "none":
        case["engine"] = beh["cfg"]["engine"]
    if beh["cfg"]["hasExpected"]:
        case["req"] = [nl - i for i in range(1, nl + 1)]
    if beh["cfg"].get("two"):
        nl2 = beh["nlabels2"]
        case["codes2"] = list(beh["labs2"])
        case["nlabels2"] = nl2
        if beh["cfg"]["hasExpected"]:
            case["req2"] = [nl2 - i for i in range(1, nl2 + 1)]
    if row["userFill"]["some"]:
        case["fill"] = list(row["userFill"]["v"])
    if row["minCount"] > 0:
        case["min_count"] = row["minCount"]
    return case


def run_compose_case(beh: dict) -> dict:
    """replay one behaviour; returns {'fails': [(clause, detail)], 'drift': [...], 'case': ...}"""
    from flox import _verif

    from . import redcase

    table = json.load(open("/verif/gen/AggTable.json"))
    case = case_of(beh, table)
    fails, drift = [], []
    del _verif.EVENTS[:]
    rec = run_two_case(case) if "codes2" in case else redcase.run_reduce_case(case)
    plan_ev = [e for e in _verif.EVENTS if e["ev"] == "plan"]
    spec_plan = beh["plan"]
    out = {"case": case, "spec": {"plan": spec_plan, "groups": beh["groups"], "result": beh["result"]},
           "got": {k: rec.get(k) for k in ("exc", "msg", "groups", "out")}}
    blockwise_out_of_scope = False
    if case["method"] == "blockwise":
        # the precondition is judged after the automatic rechunk (done by the real helper on the factorized labels)
        import numpy as np

        from flox.core import _get_optimal_chunks_for_groups

        uniq = sorted(set(beh["codes"]))       # the factorized labels (Factorize.tla), factorized once more as the code does
        relab = np.array([uniq.index(c) for c in beh["codes"]])
        eff = [int(x) for x in _get_optimal_chunks_for_groups(tuple(case["chunks"]), relab)]
        blockwise_out_of_scope = not _confined(case["codes"], eff)
        if eff != beh["sizes"]:
            drift.append(f"compose: rechunk_for_blockwise gives chunks {eff} where Rechunk.tla says {beh['sizes']}")
    out["nontrivial"] = (case["chunks"] is None or len(case["chunks"]) > 1) and any(case["codes"].count(c) > 1 for c in set(case["codes"]) if c >= 0)
    if "exc" in rec:
        if rec["exc"] not in redcase.CLEAN_REFUSALS:
            if not blockwise_out_of_scope:
                fails.append(("compose:unclean-exception", f"{rec['exc']}: {rec.get('msg')}"))
        elif spec_plan["kind"] == "ok":
            drift.append(f"compose: spec plans {spec_plan['method']} but the call refuses with {rec['exc']}: {rec.get('msg', '')[:80]} case={json.dumps(case)}")
        elif spec_plan["kind"] != rec["exc"]:
            drift.append(f"compose: refusal kind {rec['exc']} where the spec says {spec_plan['kind']}")
        out.update(fails=fails, drift=drift)
        return out
    if spec_plan["kind"] != "ok":
        drift.append(f"compose: spec refuses ({spec_plan['kind']}) but the call returned")
        out.update(fails=fails, drift=drift)
        return out
    if plan_ev:
        ev = plan_ev[-1]
        if ev.get("engine") != beh.get("engine") and "codes2" not in case:
            drift.append(f"compose: engine {ev.get('engine')} where the spec's ChooseEngine gives {beh.get('engine')} case={json.dumps(case)}")
        consulted = case["chunks"] is not None and ((case["method"] is None and not case["by_dask"]) or case["method"] == "cohorts")
        if consulted and ev.get("preferred") is not None and (ev["preferred"] != beh["pref"] or ev["ncohorts"] != beh["ncohorts"]) \
                and not (case["method"] is None and case["reindex"] is True):      # the preference is overridden for reindex=True
            drift.append(f"compose: planner says {ev['preferred']} with {ev['ncohorts']} cohorts where Cohorts.tla says {beh['pref']} with {beh['ncohorts']} case={json.dumps(case)}")
        if ev["method"] != spec_plan["method"]:
            drift.append(f"compose: strategy {ev['method']} where the spec resolves {spec_plan['method']} (planner prefers {ev.get('preferred')}, spec {beh['pref']}) case={json.dumps(case)}")
        elif bool(ev["reindex_blockwise"]) != bool(spec_plan["rb"]) and len(beh["groups"]) > 0:
            drift.append(f"compose: reindex_blockwise {ev['reindex_blockwise']} where the spec resolves {spec_plan['rb']} case={json.dumps(case)}")
    if blockwise_out_of_scope:
        out.update(fails=fails, drift=drift)
        return out
    open_order = case["by_dask"] and case.get("req") is None and not case["sort"]    # discovered groups, sort=False: order left open
    got_groups, got_out = list(rec["groups"]), list(rec["out"])
    if open_order and sorted(got_groups) == sorted(beh["groups"]) and len(set(got_groups)) == len(got_groups):
        order = [got_groups.index(g) for g in beh["groups"]]
        got_groups, got_out = [got_groups[i] for i in order], [got_out[i] for i in order]
    if got_groups != list(beh["groups"]):
        fails.append(("compose:labels", f"returned labels {rec['groups']} where the specification says {beh['groups']}"))
    else:
        for k, (exp, got) in enumerate(zip(beh["result"], got_out)):
            exp, got = list(exp), list(got)
            if exp[1] < 0 or got[1] == -2:     # unspecified in the model / not representable
                continue
            if exp != got:
                fails.append(("compose:result", f"slot {k} (label token {beh['groups'][k]}): {got} where the specification says {exp}"))
                break
        if len(beh["result"]) != len(rec["out"]):
            fails.append(("compose:result", f"{len(rec['out'])} slots where the specification says {len(beh['result'])}"))
    out.update(fails=fails, drift=drift)
    return out


def _confined(codes, chunks):
    where, pos = {}, 0
    for b, n in enumerate(chunks):
        for c in codes[pos: pos + n]:
            if c >= 0:
                where.setdefault(c, set()).add(b)
        pos += n
    return all(len(s) == 1 for s in where.values())


def run_two_case(case: dict) -> dict:
    """two categorical groupers (float label levels, NaN = missing); the result grid is flattened row-major and the
    returned label pairs are raveled to the tokens used by Flox.tla (l1 * NLabels2 + l2)"""
    import warnings

    import dask
    import dask.array as da
    import numpy as np

    from flox.core import groupby_reduce

    from . import redcase
    from .project import ProjectionError

    warnings.filterwarnings("ignore")
    array = redcase.concretize(case["vals"], "f8")
    by1 = redcase.label_array(case["codes"], "float")
    by2 = redcase.label_array(case["codes2"], "float")
    kw = redcase.build_kwargs({k: v for k, v in case.items() if k != "req"})
    tab = redcase.LABELS["float"]
    if case.get("req") is not None:
        kw["expected_groups"] = (np.array([tab[t] for t in case["req"]]), np.array([tab[t] for t in case["req2"]]))
    rec = dict(case)
    try:
        arr = da.from_array(array, chunks=(tuple(case["chunks"]),)) if case.get("chunks") is not None else array
        with dask.config.set(scheduler="synchronous", split_every=case.get("split_every") or 4):
            result, g1, g2 = groupby_reduce(arr, by1, by2, **kw)
            rec["lazy"] = bool(hasattr(result, "dask"))
            result, g1, g2 = dask.compute(result, g1, g2)
        t1, t2 = redcase.label_tokens(g1, "float"), redcase.label_tokens(g2, "float")
        rec["groups"] = [a * case["nlabels2"] + b for a in t1 for b in t2]
        rec["out"] = redcase.project_out(case["func"], np.asarray(result).reshape(-1), case.get("tol") or 1e-9)
        if np.asarray(result).shape != (len(t1), len(t2)):
            rec["exc"], rec["msg"] = "ShapeMismatch", f"result shape {np.asarray(result).shape} for label grid {(len(t1), len(t2))}"
    except ProjectionError as e:
        rec["exc"], rec["msg"] = "ProjectionError", str(e)
    except Exception as e:  # noqa: BLE001
        rec["exc"], rec["msg"] = type(e).__name__, str(e)[:300]
    return rec
