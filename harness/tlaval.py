"""Parser for TLA+ values as printed by TLC (PrintT output, error traces,
-simulate trace files): integers, strings, booleans, tuples <<..>>, sets {..},
records [a |-> v, ...], functions (k :> v @@ ...), model values.
Sets become Python lists (order as printed), functions become dicts."""
from __future__ import annotations


class TlaParseError(Exception):
    pass


def parse(text: str):
    p = _P(text)
    v = p.value()
    p.ws()
    if p.i != len(p.s):
        raise TlaParseError(f"trailing text at {p.i}: {p.s[p.i:p.i+40]!r}")
    return v


def parse_prefix(text: str, start: int = 0):
    """parse one value starting at `start`; return (value, end_index)"""
    p = _P(text)
    p.i = start
    v = p.value()
    return v, p.i


class _P:
    def __init__(self, s: str):
        self.s = s
        self.i = 0

    def ws(self):
        while self.i < len(self.s) and self.s[self.i] in " \t\r\n":
            self.i += 1

    def peek(self, n=1):
        return self.s[self.i : self.i + n]

    def expect(self, tok):
        self.ws()
        if not self.s.startswith(tok, self.i):
            raise TlaParseError(f"expected {tok!r} at {self.i}: {self.s[self.i:self.i+40]!r}")
        self.i += len(tok)

    def value(self):
        self.ws()
        c = self.peek()
        if self.peek(2) == "<<":
            self.i += 2
            return self.items(">>")
        if c == "{":
            self.i += 1
            return self.items("}")
        if c == "[":
            self.i += 1
            return self.record()
        if c == "(":
            self.i += 1
            return self.function()
        if c == '"':
            return self.string()
        if c == "-" or c.isdigit():
            j = self.i + 1
            while j < len(self.s) and self.s[j].isdigit():
                j += 1
            v = int(self.s[self.i : j])
            self.i = j
            return v
        j = self.i
        while j < len(self.s) and (self.s[j].isalnum() or self.s[j] in "_"):
            j += 1
        word = self.s[self.i : j]
        if not word:
            raise TlaParseError(f"unexpected {c!r} at {self.i}: {self.s[self.i:self.i+40]!r}")
        self.i = j
        if word == "TRUE":
            return True
        if word == "FALSE":
            return False
        return word

    def items(self, close):
        out = []
        self.ws()
        if self.s.startswith(close, self.i):
            self.i += len(close)
            return out
        while True:
            out.append(self.value())
            self.ws()
            if self.s.startswith(close, self.i):
                self.i += len(close)
                return out
            self.expect(",")

    def record(self):
        out = {}
        self.ws()
        if self.peek() == "]":
            self.i += 1
            return out
        while True:
            self.ws()
            j = self.i
            while j < len(self.s) and (self.s[j].isalnum() or self.s[j] == "_"):
                j += 1
            key = self.s[self.i : j]
            self.i = j
            self.expect("|->")
            out[key] = self.value()
            self.ws()
            if self.peek() == "]":
                self.i += 1
                return out
            self.expect(",")

    def function(self):
        out = {}
        while True:
            k = self.value()
            self.expect(":>")
            v = self.value()
            out[_hashable(k)] = v
            self.ws()
            if self.peek() == ")":
                self.i += 1
                return out
            self.expect("@@")

    def string(self):
        assert self.peek() == '"'
        j = self.i + 1
        buf = []
        while self.s[j] != '"':
            if self.s[j] == "\\":
                j += 1
            buf.append(self.s[j])
            j += 1
        self.i = j + 1
        return "".join(buf)


def _hashable(k):
    if isinstance(k, list):
        return tuple(_hashable(x) for x in k)
    if isinstance(k, dict):
        return tuple(sorted((a, _hashable(b)) for a, b in k.items()))
    return k
