#!/venv/bin/python
"""Run the repository's pinned test suite with the verification guard OFF and
compare with /root/.vp/BASELINE.json: every test in `stable_pass` must pass.

Usage: baseline.py [--jobs N]
Exit 0 when all stable_pass tests passed, 1 otherwise (prints the regressions).
"""
from __future__ import annotations

import json
import os
import subprocess
import sys
import tempfile
import xml.etree.ElementTree as ET


def main() -> int:
    jobs = "14"
    repo = "/repo"
    if "--jobs" in sys.argv:
        jobs = sys.argv[sys.argv.index("--jobs") + 1]
    if "--repo" in sys.argv:   # a scratch worktree (used to confirm seeded changes)
        repo = sys.argv[sys.argv.index("--repo") + 1]
    base = json.load(open("/root/.vp/BASELINE.json"))
    env = dict(os.environ)
    env.pop("FLOX_VERIF", None)
    env.pop("FLOX_VERIF_TRACE", None)
    with tempfile.TemporaryDirectory(prefix="flox-baseline-") as td:
        junit = os.path.join(td, "junit.xml")
        cmd = [
            "/venv/bin/python", "-m", "pytest", "-q", "-p", "no:cacheprovider", "--timeout=900",
            "--continue-on-collection-errors", f"--junitxml={junit}", "-n", jobs,
        ]
        env["PYTHONPATH"] = repo
        proc = subprocess.run(cmd, cwd=repo, env=env, stdout=subprocess.PIPE, stderr=subprocess.STDOUT, text=True)
        tail = "\n".join(proc.stdout.splitlines()[-5:])
        if not os.path.exists(junit):
            print(proc.stdout[-4000:])
            print("baseline: no junit produced")
            return 1
        passed = set()
        for tc in ET.parse(junit).getroot().iter("testcase"):
            bad = any(ch.tag in ("failure", "error", "skipped") for ch in tc)
            if not bad:
                passed.add(f"{tc.get('classname')}::{tc.get('name')}")
    missing = [t for t in base["stable_pass"] if t not in passed]
    print(tail)
    print(f"baseline: stable_pass={len(base['stable_pass'])} passed_now={len(passed)} regressions={len(missing)}")
    for t in missing[:50]:
        print("  REGRESSION", t)
    return 1 if missing else 0


if __name__ == "__main__":
    sys.exit(main())
