#!/venv/bin/python
"""Run the repository's pinned test suite with the verification guard OFF and
compare with /root/.vp/BASELINE.json: every test in `stable_pass` must pass.

Usage: baseline.py [--jobs N]
Exit 0 when all stable_pass tests passed, 1 otherwise (prints the regressions).
"""
from __future__ import annotations

import json
import os
import subprocess
import sys
import tempfile
import xml.etree.ElementTree as ET


def main() -> int:
    jobs = "14"
    repo = "/repo"
    if "--jobs" in sys.argv:
        jobs = sys.argv[sys.argv.index("--jobs") + 1]
    if "--repo" in sys.argv:   # a scratch worktree (used to confirm seeded changes)
        repo = sys.argv[sys.argv.index("--repo") + 1]
    base = json.load(open("/root/.vp/BASELINE.json"))
    env = dict(os.environ)
    env.pop("FLOX_VERIF", None)
    env.pop("FLOX_VERIF_TRACE", None)
    with tempfile.TemporaryDirectory(prefix="flox-baseline-") as td:
        junit = os.path.join(td, "junit.xml")
        cmd = [
            "/venv/bin/python", "-m", "pytest", "-q", "-p", "no:cacheprovider", "--timeout=900",
            "--continue-on-collection-errors", f"--junitxml={junit}", "-n", jobs,
        ]
        env["PYTHONPATH"] = repo
        proc = subprocess.run(cmd, cwd=repo, env=env, stdout=subprocess.PIPE, stderr=subprocess.STDOUT, text=True)
        tail = "\n".join(proc.stdout.splitlines()[-5:])
        if not os.path.exists(junit):
            print(proc.stdout[-4000:])
            print("baseline: no junit produced")
            return 1
        passed = set()
        why = {}
        for tc in ET.parse(junit).getroot().iter("testcase"):
            bad = [ch for ch in tc if ch.tag in ("failure", "error", "skipped")]
            if not bad:
                passed.add(f"{tc.get('classname')}::{tc.get('name')}")
            else:
                why[f"{tc.get('classname')}::{tc.get('name')}"] = (bad[0].get("message") or "")[:300] + " | " + (bad[0].text or "")[-600:]
    missing = [t for t in base["stable_pass"] if t not in passed]
    print(tail)
    print(f"baseline: stable_pass={len(base['stable_pass'])} passed_now={len(passed)} regressions={len(missing)}")
    for t in missing[:50]:
        print("  REGRESSION", t)
    try:   # debugging aid only (git-ignored): which tests regressed in which tree
        os.makedirs("/verif/out", exist_ok=True)
        with open("/verif/out/baseline_regressions.log", "a") as fh:
            fh.write(f"{repo} regressions={len(missing)} {missing[:50]}\n")
            for t in missing[:10]:
                fh.write(f"    {t}: {why.get(t, 'not run')!r}\n")
    except OSError:
        pass
    return 1 if missing else 0


if __name__ == "__main__":
    sys.exit(main())
