"""C13 worker: execute a real graph with every stored value frozen (read-only),
digest the inputs of every task before and after it runs, execute every task a
second time, and once more after a cloudpickle round trip of the task object.
Emits the event stream validated by spec/TraceExec.tla."""
from __future__ import annotations

import random
import warnings

import cloudpickle

from . import sched
from .graphcase import build


def build_any(case):
    if case.get("scan"):
        from .scancase import build_scan

        return build_scan(case)
    result, groups, kind = build(case)
    return result


def _perturb(case):
    n = len(case["vals"])
    other = dict(case, vals=[[(3 * i) % 5 + 1, 1] for i in range(n)], dtype="i4")
    if case.get("scan"):
        other["out_dtype"] = None
    else:
        other.update(dtype="i8", fill=[-7, 1], min_count=2)
        if case.get("req") is None:
            other["req"] = sorted({c for c in case["codes"] if c >= 0})
    build_any(other)


def run_purity_case(case: dict) -> dict:
    from dask._task_spec import DataNode

    warnings.filterwarnings("ignore")
    rec = {"case": case}
    try:
        result = build_any(case)
    except Exception as e:  # noqa: BLE001
        rec.update(exc=type(e).__name__, msg=str(e)[:300], phase="call")
        return rec
    if not hasattr(result, "dask"):
        rec["notlazy"] = True
        return rec
    graph = sched.graph_of(result)
    rng = random.Random(case.get("order_seed", 0))
    order = sched.topo_order(graph, rng)
    ident = {k: i + 1 for i, k in enumerate(order)}
    events = []
    store = {}
    problems = []
    for k in order:
        node = graph[k]
        deps = sched.ordered_deps(node)
        if isinstance(node, DataNode):
            out = sched.freeze(sched.run_node(node, store))
            store[k] = out
            events.append({"ev": "run", "k": ident[k], "deps": [], "dig": sched.digest(out), "inb": [], "ina": []})
            continue
        kind = sched.describe(node).get("kind")
        if any(d not in store for d in deps):
            continue   # a dependency failed to run (already reported)
        for ev in ("run", "rerun", "ship"):
            inb = [sched.digest(store[d]) for d in deps]
            try:
                if ev == "ship":
                    node2 = cloudpickle.loads(cloudpickle.dumps(node))
                    out = sched.run_node(node2, store)
                else:
                    out = sched.run_node(node, store)
            except Exception as e:  # noqa: BLE001
                problems.append({"k": str(k), "ev": ev, "kind": kind, "exc": type(e).__name__, "msg": str(e)[:200]})
                break
            ina = [sched.digest(store[d]) for d in deps]
            if ev == "run":
                store[k] = sched.freeze(out)
            events.append({"ev": ev, "k": ident[k], "deps": [ident[d] for d in deps], "dig": sched.digest(out), "inb": inb, "ina": ina,
                           "kind": kind})
    # tasks must not read state that a LATER flox call can change (registry objects, user Aggregation instances shared with
    # the graph): build, lazily, the same reduction / scan on data of another dtype with another fill and min_count, then
    # execute every task once more on the stored inputs; it must reproduce the stored value ("rerun" event)
    try:
        _perturb(case)
    except Exception:  # noqa: BLE001  (a refusal of the perturbing call is fine: it only has to run flox's set-up code)
        pass
    for k in order:
        node = graph[k]
        if isinstance(node, DataNode) or k not in store:
            continue
        deps = sched.ordered_deps(node)
        if any(d not in store for d in deps):
            continue
        inb = [sched.digest(store[d]) for d in deps]
        try:
            out = sched.run_node(node, store)
        except Exception as e:  # noqa: BLE001
            problems.append({"k": str(k), "ev": "rerun-after-other-call", "kind": sched.describe(node).get("kind"), "exc": type(e).__name__, "msg": str(e)[:200]})
            continue
        ina = [sched.digest(store[d]) for d in deps]
        events.append({"ev": "rerun", "k": ident[k], "deps": [ident[d] for d in deps], "dig": sched.digest(out), "inb": inb, "ina": ina,
                       "kind": sched.describe(node).get("kind"), "after_other_call": True})
    rec["events"] = events
    rec["problems"] = problems
    rec["ntasks"] = sum(1 for k in order if not isinstance(graph[k], DataNode))
    return rec
