"""Grouped scans on real flox: abstract case -> Return record for spec/TraceScan.tla"""
from __future__ import annotations

import warnings

import numpy as np

from .project import ProjectionError, pv
from .redcase import concretize, label_array


def build_scan(case):
    import dask.array as da

    from flox.core import groupby_scan

    kind = case.get("label_kind", "int")
    array = concretize(case["vals"], case.get("dtype", "f8"))
    by = label_array(case["codes"], kind)
    if case.get("chunks") is not None:
        ch = (tuple(case["chunks"]),)
        array = da.from_array(array, chunks=ch)
        if case.get("by_dask"):
            by = da.from_array(by, chunks=ch)
    kw = {}
    if case.get("out_dtype"):
        kw["dtype"] = case["out_dtype"]
    return groupby_scan(array, by, func=case["func"], axis=-1, **kw)


def run_scan_case(case: dict) -> dict:
    import dask

    warnings.filterwarnings("ignore")
    rec = dict(case)
    try:
        res = build_scan(case)
        rec["lazy"] = hasattr(res, "dask")
        if hasattr(res, "dask"):
            rec["announced_dtype"] = str(res.dtype)
            res = res.compute(scheduler="synchronous")
        res = np.asarray(res)
        rec["out_dtype_seen"] = str(res.dtype)
        rec["out_len"] = int(res.size)
        rec["out"] = [pv(x, 1e-9) for x in res.reshape(-1)]
    except ProjectionError as e:
        rec.update(exc="ProjectionError", msg=str(e))
    except Exception as e:  # noqa: BLE001
        rec.update(exc=type(e).__name__, msg=str(e)[:300])
    return rec


def tlc_record(rec, rid):
    return {"id": rid, "func": rec["func"], "vals": rec["vals"], "codes": rec["codes"], "out": rec["out"],
            "intdata": rec.get("dtype", "f8")[0] in "iub"}


# ------------------------------------------------------------------ task level
def _proj_aligned(a, with_codes):
    import numpy as np

    if a is None:
        return None
    vals = [pv(x, 1e-9) for x in np.asarray(a.array).reshape(-1)]
    codes = [int(x) for x in np.asarray(a.group_idx).reshape(-1)]
    return {"vals": vals, "codes": codes} if with_codes else {"groups": codes, "vals": vals}


def _proj_state(s):
    st = _proj_aligned(s.state, False) if s.state is not None else None
    rs = _proj_aligned(s.result, True) if s.result is not None else None
    return {"hasstate": st is not None, "state": st or {"groups": [], "vals": []},
            "hasresult": rs is not None, "result": rs or {"vals": [], "codes": []}}


def run_scan_graph_case(case: dict) -> dict:
    """execute the real dask_groupby_scan graph task by task; one record per flox task"""
    import random

    from . import sched

    warnings.filterwarnings("ignore")
    rec = {"case": case}
    try:
        res = build_scan(case)
    except Exception as e:  # noqa: BLE001
        rec.update(exc=type(e).__name__, msg=str(e)[:300], phase="call")
        return rec
    if not hasattr(res, "dask"):
        rec["notlazy"] = True
        return rec
    graph = sched.graph_of(res)
    order = sched.topo_order(graph, random.Random(case.get("order_seed", 0)))
    tasks = []
    func = case["func"]

    def on_task(k, node, store, out):
        d = sched.describe(node)
        kd = d["kind"]
        deps = sched.ordered_deps(node)
        try:
            if kd in ("scan:chunk_scan", "scan:grouped_reduce"):
                inp = store[deps[0]]
                a = _proj_aligned(inp, True)
                tasks.append({"kind": "scan" if kd.endswith("chunk_scan") else "reduce", "func": func, "vals": a["vals"], "codes": a["codes"],
                              "out": _proj_state(out)})
            elif kd == "scan:scan_binary_op":
                left, right = store[deps[0]], store[deps[1]]
                tasks.append({"kind": "binop", "func": func, "left": _proj_state(left), "right": _proj_state(right), "out": _proj_state(out)})
        except ProjectionError as e:
            tasks.append({"kind": "projection-error", "msg": str(e)})

    try:
        sched.execute(graph, order, on_task=on_task)
    except Exception as e:  # noqa: BLE001
        rec.update(exc=type(e).__name__, msg=str(e)[:300], phase="compute")
        return rec
    rec["tasks"] = tasks
    return rec
