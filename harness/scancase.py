"""Grouped scans on real flox: abstract case -> Return record for spec/TraceScan.tla"""
from __future__ import annotations

import warnings

import numpy as np

from .project import ProjectionError, pv
from .redcase import concretize, label_array


def build_scan(case):
    import dask.array as da

    from flox.core import groupby_scan

    kind = case.get("label_kind", "int")
    array = concretize(case["vals"], case.get("dtype", "f8"))
    by = label_array(case["codes"], kind)
    if case.get("chunks") is not None:
        ch = (tuple(case["chunks"]),)
        array = da.from_array(array, chunks=ch)
        if case.get("by_dask"):
            by = da.from_array(by, chunks=ch)
    kw = {}
    if case.get("out_dtype"):
        kw["dtype"] = case["out_dtype"]
    return groupby_scan(array, by, func=case["func"], axis=-1, **kw)


def run_scan_case(case: dict) -> dict:
    import dask

    warnings.filterwarnings("ignore")
    rec = dict(case)
    try:
        res = build_scan(case)
        rec["lazy"] = hasattr(res, "dask")
        if hasattr(res, "dask"):
            rec["announced_dtype"] = str(res.dtype)
            res = res.compute(scheduler="synchronous")
        res = np.asarray(res)
        rec["out_dtype_seen"] = str(res.dtype)
        rec["out_len"] = int(res.size)
        rec["out"] = [pv(x, 1e-9) for x in res.reshape(-1)]
    except ProjectionError as e:
        rec.update(exc="ProjectionError", msg=str(e))
    except Exception as e:  # noqa: BLE001
        rec.update(exc=type(e).__name__, msg=str(e)[:300])
    return rec


def tlc_record(rec, rid):
    return {"id": rid, "func": rec["func"], "vals": rec["vals"], "codes": rec["codes"], "out": rec["out"],
            "intdata": rec.get("dtype", "f8")[0] in "iub"}
