"""User-defined flox.Aggregation objects used by C04 (the same objects are handed
to real flox in the replays and projected to blueprint rows for TLC).

finalize functions are recognised by name in harness/sched.py:FINALIZE_KIND and
interpreted by spec/Aggs.tla:FinalizeOne; the intended whole-group semantics of
each (lawful) aggregation is in spec/Ref.tla:RefReduce under the same name."""
from __future__ import annotations

import numpy as np

from flox import Aggregation
from flox import xrdtypes as dtypes


def _range_finalize(mx, mn):
    with np.errstate(invalid="ignore"):
        return mx - mn


def _rms2_finalize(sumsq, count):
    with np.errstate(invalid="ignore", divide="ignore"):
        return sumsq / count


user_range = Aggregation(
    "user_range", chunk=("max", "min"), combine=("max", "min"), finalize=_range_finalize,
    fill_value=(dtypes.NINF, dtypes.INF), final_fill_value=dtypes.NA, numpy="user_range_unsupported_eager",
)
user_nanrange = Aggregation(
    "user_nanrange", chunk=("nanmax", "nanmin"), combine=("nanmax", "nanmin"), finalize=_range_finalize,
    fill_value=(dtypes.NINF, dtypes.INF), final_fill_value=dtypes.NA, numpy="user_nanrange_unsupported_eager",
)
user_meansq = Aggregation(
    "user_meansq", chunk=("sum_of_squares", "nanlen"), combine=("sum", "sum"), finalize=_rms2_finalize,
    fill_value=(0, 0), dtypes=(None, np.intp), final_dtype=np.floating, numpy="user_meansq_unsupported_eager",
)
# deliberately NOT a lawful decomposition (sums per block, maximum of the block sums):
# the property only demands that the same machinery executes it as specified
user_maxofsums = Aggregation(
    "user_maxofsums", chunk=("sum",), combine=("max",), fill_value=(dtypes.NINF,), final_fill_value=dtypes.NA,
    numpy="user_maxofsums_unsupported_eager",
)

USER_AGGS = {
    "user_range": (user_range, True),
    "user_nanrange": (user_nanrange, True),
    "user_meansq": (user_meansq, True),
    "user_maxofsums": (user_maxofsums, False),
}
