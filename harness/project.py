"""Abstraction function: concrete NumPy values -> the specification's exact value
domain (see spec/Values.tla).

A value is [n, d]: d>0 rational in lowest terms, [0,0] NaN/NaT, [1,0] +inf,
[-1,0] -inf.  The projection never guesses: a float that is not within `tol` of
a rational with denominator <= MAXDEN raises ProjectionError, which callers turn
into a machinery failure (exit 2), never into an alarm.
"""
from __future__ import annotations

import math
from fractions import Fraction

import numpy as np

MAXDEN = 5040
INT_LIMIT = 2**31 - 1

NAN = [0, 0]
PINF = [1, 0]
NINF = [-1, 0]


class ProjectionError(Exception):
    pass


def pv(x, tol: float = 1e-12) -> list[int]:
    """project one scalar"""
    if isinstance(x, (bool, np.bool_)):
        return [int(x), 1]
    if isinstance(x, (np.datetime64, np.timedelta64)):
        if np.isnat(x):
            return NAN
        x = int(x.astype(np.int64))
    if isinstance(x, (int, np.integer)):
        x = int(x)
        if abs(x) > INT_LIMIT:
            raise ProjectionError(f"integer {x} outside the model's 32-bit range")
        return [x, 1]
    if isinstance(x, Fraction):
        return [x.numerator, x.denominator]
    x = float(x)
    if math.isnan(x):
        return NAN
    if math.isinf(x):
        return PINF if x > 0 else NINF
    fr = Fraction(x).limit_denominator(MAXDEN)
    if abs(float(fr) - x) > tol * max(1.0, abs(x)):
        raise ProjectionError(f"{x!r} is not within {tol} of a rational with denominator <= {MAXDEN}")
    if abs(fr.numerator) > INT_LIMIT:
        raise ProjectionError(f"{x!r} numerator outside the model's 32-bit range")
    return [fr.numerator, fr.denominator]


UNREPRESENTABLE = [0, -2]


def pv_out(x, tol: float = 1e-9) -> list[int]:
    """projection of a value RETURNED by flox: a result outside the abstract domain (not a small rational,
    beyond 32 bits) cannot be the reference answer of an in-domain input; it is projected to the marker
    'unrepresentable', which matches no specified expected value."""
    try:
        return pv(x, tol)
    except ProjectionError:
        return list(UNREPRESENTABLE)


def pseq(arr, tol: float = 1e-12) -> list[list[int]]:
    a = np.asarray(arr)
    return [pv(v, tol) for v in a.reshape(-1)]


def to_float(v: list[int]) -> float:
    n, d = v
    if d == 0:
        return math.nan if n == 0 else (math.inf if n > 0 else -math.inf)
    return n / d


def opt(x, f=lambda v: v):
    """optional value: TLC's JSON reader has no null"""
    return {"some": False, "v": f(0) if f is not pv else NAN} if x is None else {"some": True, "v": f(x)}


def optv(x):
    return {"some": False, "v": NAN} if x is None else {"some": True, "v": pv(x)}


def optseq(x):
    return {"some": False, "v": []} if x is None else {"some": True, "v": [int(i) for i in x]}
