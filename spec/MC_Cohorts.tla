------------------------------ MODULE MC_Cohorts -----------------------------
(* All incidence matrices up to MaxChunks x NL (rows grown one chunk at a time,  *)
(* so that all workers share the enumeration), both `merge` values and both     *)
(* chunk-size classes: the transcribed planner satisfies the C09 relation.      *)
EXTENDS Cohorts, TLC
CONSTANTS MaxChunks, NL
VARIABLE B
Init == B = <<>>
Grow == Len(B) < MaxChunks /\ \E row \in SUBSET (0..(NL - 1)) : B' = Append(B, row)
Next == Grow
Spec == Init /\ [][Next]_B

CohortsSound ==
  B # <<>> => \A merge \in BOOLEAN : \A single \in BOOLEAN : Sound(FindGroupCohorts(B, NL, merge, single), B, NL)

\* diagnostics for counterexamples
Dbg == [B |-> B, results |-> [m \in BOOLEAN |-> FindGroupCohorts(B, NL, m, FALSE)]]
=============================================================================
