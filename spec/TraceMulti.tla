------------------------------ MODULE TraceMulti -----------------------------
(***************************************************************************)
(* Trace specification for grouping by several label arrays and by bins     *)
(* (C07).  One line = one completed call:                                    *)
(*   func, vals, groupers, fill, min_count, out, shape                       *)
(* groupers[j] = [kind |-> "cat", codes, req]           categorical labels   *)
(*             | [kind |-> "bin", x, edges, right]      contiguous bins       *)
(* Grouping by several arrays is grouping by the TUPLE of labels: element i  *)
(* belongs to slot (s_1, ..., s_m) where s_j is the position of its j-th     *)
(* label among the requested ones / its pandas.cut bin; it is dropped when   *)
(* any s_j is -1.  `out` is the result flattened in row-major order over the *)
(* trailing group axes, `shape` their extents.                               *)
(***************************************************************************)
EXTENDS Ref, Json, IOUtils, TLC
VARIABLE l
TraceLog == ndJsonDeserialize(IOEnv.TRACE_FILE)

SlotOf(g, i) ==
  IF g.kind = "cat" THEN (IF g.codes[i] < 0 THEN -1 ELSE IndexOf0(g.req, g.codes[i]))
  ELSE RefCut(g.x[i], g.edges, g.right)
Extent(g) == IF g.kind = "cat" THEN Len(g.req) ELSE Len(g.edges) - 1

\* row-major ravel of the slot tuple of element i; -1 when any component is -1
RECURSIVE RavelUpTo(_, _, _)
RavelUpTo(gs, i, m) == IF m = 0 THEN 0 ELSE RavelUpTo(gs, i, m - 1) * Extent(gs[m]) + SlotOf(gs[m], i)
TupleCode(gs, i) == IF \E j \in 1..Len(gs) : SlotOf(gs[j], i) = -1 THEN -1 ELSE RavelUpTo(gs, i, Len(gs))

RECURSIVE ProdExtent(_, _)
ProdExtent(gs, m) == IF m = 0 THEN 1 ELSE ProdExtent(gs, m - 1) * Extent(gs[m])

Bad(r) ==
  LET n == Len(r.vals)
      codes == [i \in 1..n |-> TupleCode(r.groupers, i)]
      nslots == ProdExtent(r.groupers, Len(r.groupers))
      shapeOk == r.shape = [j \in 1..Len(r.groupers) |-> Extent(r.groupers[j])] /\ Len(r.out) = nslots
      exp == [k \in 1..nslots |-> RefSlot(r.func, r.vals, codes, k - 1, r.fill, r.min_count, [ddof |-> r.ddof, q |-> <<1, 2>>])]
      valuesOk == shapeOk /\ \A k \in 1..nslots : Matches(exp[k], r.out[k])
  IN (IF shapeOk THEN {} ELSE {"shape"}) \cup (IF shapeOk /\ ~valuesOk THEN {"values"} ELSE {})

Expected(r) ==
  LET codes == [i \in 1..Len(r.vals) |-> TupleCode(r.groupers, i)] IN
  [k \in 1..ProdExtent(r.groupers, Len(r.groupers)) |-> RefSlot(r.func, r.vals, codes, k - 1, r.fill, r.min_count, [ddof |-> r.ddof, q |-> <<1, 2>>])]

Init == l = 1
Next == /\ l <= Len(TraceLog)
        /\ LET r == TraceLog[l] IN IF Bad(r) = {} THEN TRUE ELSE PrintT(<<"FAIL", r.id, Bad(r), Expected(r)>>)
        /\ l' = l + 1
Spec == Init /\ [][Next]_l
TraceAccepted == TLCGet("stats").diameter = Len(TraceLog) + 1
=============================================================================
