-------------------------------- MODULE Exec --------------------------------
(***************************************************************************)
(* A scheduler executing a task graph: the graph is the REAL graph of a     *)
(* flox call, exported by harness/sched.py to JSON (ids 1..n in some        *)
(* topological order):                                                       *)
(*   deps[k]        ordered dependencies of node k                           *)
(*   leaf[k]        b >= 1 when k is block b of the value array, else 0      *)
(*   outputs        the keys of the result collection, in chunk order        *)
(*   blocklabels[b] labels (codes) occurring in block b                      *)
(*   outlabels[j]   labels announced for output chunk j                      *)
(* The abstract value of a task is its PROVENANCE: the bag of value-array    *)
(* blocks folded into it (a pure function of its inputs' values).            *)
(* Actions: RunTask (any ready task: all interleavings), Lose (a worker      *)
(* dies: a stored result disappears while still needed), re-execution via    *)
(* RunTask again, and the impure variant in which one designated task        *)
(* scribbles on one of its inputs.                                           *)
(***************************************************************************)
EXTENDS Integers, Sequences, FiniteSets, Json, IOUtils, TLC

CONSTANTS MaxLose, ImpureTask

G == JsonDeserialize(IOEnv.GRAPH_FILE)
Nodes == 1..G.n
DepSeq(k) == G.deps[k]
DepSet(k) == {DepSeq(k)[i] : i \in 1..Len(DepSeq(k))}
Blocks == 1..G.nblocks
Null == [b \in Blocks |-> -1]
Dirty == [b \in Blocks |-> 99]
EmptyBag == [b \in Blocks |-> 0]

VARIABLES store, done, nlost, hist
vars == <<store, done, nlost, hist>>

BagSum(seq) == [b \in Blocks |-> LET RECURSIVE S(_)
                                       S(i) == IF i = 0 THEN 0 ELSE seq[i][b] + S(i - 1)
                                   IN S(Len(seq))]

\* value a task computes from the stored values of its dependencies
Compute(k, st) ==
  IF G.leaf[k] > 0 THEN [b \in Blocks |-> IF b = G.leaf[k] THEN 1 ELSE 0]
  ELSE IF \E i \in 1..Len(DepSeq(k)) : st[DepSeq(k)[i]] = Dirty THEN Dirty
  ELSE BagSum([i \in 1..Len(DepSeq(k)) |-> st[DepSeq(k)[i]]])

\* canonical semantics: ids are topologically ordered, so define by recursion on k
RECURSIVE Sem(_)
Sem(k) ==
  IF G.leaf[k] > 0 THEN [b \in Blocks |-> IF b = G.leaf[k] THEN 1 ELSE 0]
  ELSE BagSum([i \in 1..Len(DepSeq(k)) |-> Sem(DepSeq(k)[i])])

\* input chunks (data nodes) are present from the start and cannot be lost
Pre == {k \in Nodes : G.pre[k] = 1}

Init == /\ store = [k \in Nodes |-> IF k \in Pre THEN Sem(k) ELSE Null]
        /\ done = Pre /\ nlost = 0 /\ hist = <<>>

Ready(k) == DepSet(k) \subseteq done

RunTask(k) ==
  /\ k \notin done /\ Ready(k)
  /\ LET v == Compute(k, store) IN
     store' = IF k = ImpureTask /\ DepSeq(k) # <<>>
              THEN [store EXCEPT ![k] = v, ![DepSeq(k)[1]] = Dirty]   \* writes into its first input
              ELSE [store EXCEPT ![k] = v]
  /\ done' = done \cup {k}
  /\ hist' = Append(hist, <<"run", k>>)
  /\ UNCHANGED nlost

\* a finished result that some unfinished task still needs is lost; it (and nothing else) must be recomputed
Lose(k) ==
  /\ nlost < MaxLose /\ k \in done /\ k \notin Pre
  /\ \E c \in Nodes : k \in DepSet(c) /\ c \notin done
  /\ store' = [store EXCEPT ![k] = Null]
  /\ done' = done \ {k}
  /\ nlost' = nlost + 1
  /\ hist' = Append(hist, <<"lose", k>>)

Next == \E k \in Nodes : RunTask(k) \/ Lose(k)
Spec == Init /\ [][Next]_vars
View == <<store, done, nlost>>

AllDone == done = Nodes

\* C03 / C13: whatever the interleaving, the losses and the re-executions, a stored value is THE value of its key
Confluence == \A k \in done : store[k] = Sem(k)

\* C09: nothing is folded twice into an output chunk ...
CountedOnce == \A j \in 1..Len(G.outputs) : \A b \in Blocks : Sem(G.outputs[j])[b] <= 1
\* ... and every block holding one of its labels is in its dependency closure
ClosureSound ==
  \A j \in 1..Len(G.outputs) : \A b \in Blocks :
     (\E i \in 1..Len(G.outlabels[j]) : \E m \in 1..Len(G.blocklabels[b]) : G.outlabels[j][i] = G.blocklabels[b][m])
        => Sem(G.outputs[j])[b] = 1

\* behaviours for the replay binding (simulation mode): print the schedule when everything is done
EmitSchedule == AllDone => PrintT(<<"SCHED", hist>>)
=============================================================================
