-------------------------------- MODULE Aggs --------------------------------
(***************************************************************************)
(* The chunk / combine / finalize aggregation algebra of flox, as an        *)
(* interpreter of *blueprints*.  A blueprint is the per-call Aggregation     *)
(* object after _initialize_aggregation, projected to                        *)
(*   [name, chunk, combine, fillI, finalize, ddof, minCount, userFill,       *)
(*    rtype]                                                                 *)
(* It is never written by hand: gen/AggTable.tla is extracted from the live  *)
(* registry (model checking) and every recorded task carries the blueprint   *)
(* found inside the real task's functools.partial (trace validation).        *)
(*                                                                           *)
(* The intermediate result of a task (IR) is                                 *)
(*   [groups |-> Seq(label), inter |-> Seq(Seq(Value))]                      *)
(* inter[i][k] = i-th intermediate of group groups[k].  Labels are integer   *)
(* tokens; -1 is the code of a missing label, which flox carries through the *)
(* graph as an ordinary label when it does not reindex at the block stage.   *)
(*                                                                           *)
(* One 1-D reduced axis, no batch dimensions (drivers slice first).          *)
(***************************************************************************)
EXTENDS Ref

\* ------------------------------------------------------------ primitives
Squares(s) == [i \in 1..Len(s) |-> Sq(s[i])]

(* block-level primitive `name` on the member sequence mem of one group;    *)
(* fill is the blueprint's intermediate fill for that slot (returned for an  *)
(* absent group and, for the NaN-skipping extrema, for an all-NaN group).    *)
PrimI(name, mem, fill) ==
  IF mem = <<>> THEN fill
  ELSE LET d == DropNaN(mem) IN
  CASE name = "sum"      -> SumSeq(mem)
    [] name = "nansum"   -> SumSeq(d)
    [] name = "prod"     -> ProdSeq(mem)
    [] name = "nanprod"  -> ProdSeq(d)
    [] name = "max"      -> MaxSeq(mem)
    [] name = "min"      -> MinSeq(mem)
    [] name = "nanmax"   -> IF d = <<>> THEN fill ELSE MaxSeq(d)
    [] name = "nanmin"   -> IF d = <<>> THEN fill ELSE MinSeq(d)
    [] name = "nanlen"   -> I(Len(d))
    [] name = "sum_of_squares"    -> SumSeq(Squares(mem))
    [] name = "nansum_of_squares" -> SumSeq(Squares(d))
    [] name = "nanfirst" -> IF d = <<>> THEN fill ELSE d[1]
    [] name = "nanlast"  -> IF d = <<>> THEN fill ELSE d[Len(d)]
    [] name = "all"      -> BoolAll(mem)
    [] name = "any"      -> BoolAny(mem)

\* engine-specific variant: numbagg's NaN-skipping extrema answer NaN (not the
\* substitute) for a group whose members are all NaN
PrimE(name, mem, fill, nanKeepsNaN) ==
  IF nanKeepsNaN /\ name \in {"nanmax", "nanmin"} /\ mem # <<>> /\ DropNaN(mem) = <<>> THEN NaN
  ELSE PrimI(name, mem, fill)

\* numpy reduction along the dummy axis used by _simple_combine
NpCombine(name, xs) ==
  LET d == DropNaN(xs) IN
  CASE name = "sum"     -> SumSeq(xs)
    [] name = "prod"    -> ProdSeq(xs)
    [] name = "max"     -> MaxSeq(xs)
    [] name = "min"     -> MinSeq(xs)
    [] name = "nanmax"  -> IF d = <<>> THEN NaN ELSE MaxSeq(d)
    [] name = "nanmin"  -> IF d = <<>> THEN NaN ELSE MinSeq(d)
    [] name = "nanfirst"-> IF d = <<>> THEN NaN ELSE d[1]
    [] name = "nanlast" -> IF d = <<>> THEN NaN ELSE d[Len(d)]
    [] name = "all"     -> BoolAll(xs)
    [] name = "any"     -> BoolAny(xs)

IsArg(agg) == agg.rtype = "argreduce"
NInter(agg) == Len(agg.chunk)

\* ------------------------------------------------------------ helpers
IndexOf(s, x) == IF \E i \in 1..Len(s) : s[i] = x THEN CHOOSE i \in 1..Len(s) : s[i] = x ELSE 0

\* reindex_intermediates: re-lay an IR onto the label sequence `to`, absent
\* labels get the blueprint's intermediate fill
ReindexIR(agg, ir, to) ==
  [groups |-> to,
   inter  |-> [i \in 1..Len(ir.inter) |->
                 [k \in 1..Len(to) |->
                    LET j == IndexOf(ir.groups, to[k]) IN
                    IF j = 0 THEN agg.fillI[i] ELSE ir.inter[i][j]]]]

ConcatAll(seqs) == FoldSeq(LAMBDA a, b : a \o b, <<>>, seqs)

UnionSorted(irs) == SortInts(Dedup(ConcatAll([n \in 1..Len(irs) |-> irs[n].groups])))

\* ------------------------------------------------------------ block stage
(* chunk_reduce / chunk_argreduce on one block.                              *)
(*   vals, codes : the block; start : global index of its first element      *)
(*   p.reindex   : reindex at the block stage onto p.expected                *)
(*   p.dropMissing : the missing label is dropped here (reindexing blocks,   *)
(*                   or raw labels discovered at compute time)               *)
(*   p.nanKeepsNaN : the engine's NaN-skipping extrema answer NaN for a      *)
(*                   group whose members are all NaN (engine numbagg);       *)
(*                   the other engines answer the substitute (+-inf)         *)
ArgIndex(name, vals, pos, start) ==
  \* global index of the first occurrence of the extreme among the members at `pos`
  LET mem == Pick(vals, pos)
      better(a, b) == IF name \in {"argmax", "nanargmax"} THEN Gt(a, b) ELSE Lt(a, b)
      j == ArgExt(mem, better)
  IN IF j = 0 THEN Unspec ELSE I(start + pos[j] - 1)

ChunkGroups(codes, p) ==
  IF p.reindex THEN p.expected
  ELSE LET present == Dedup(codes)
           kept == IF p.dropMissing THEN SelectSeq(present, LAMBDA c : c >= 0) ELSE present
       IN SortInts(kept)

ChunkSem(agg, vals, codes, start, p) ==
  LET gs == ChunkGroups(codes, p) IN
  [groups |-> gs,
   inter |->
     [i \in 1..NInter(agg) |->
        [k \in 1..Len(gs) |->
           LET pos == Positions(codes, gs[k])
               mem == Pick(vals, pos)
           IN IF IsArg(agg) /\ i = 2
              THEN (IF mem = <<>> THEN agg.fillI[2]
                    ELSE IF (agg.chunk[2] \in {"argmax", "argmin"} /\ HasNaN(mem))
                            \/ DropNaN(mem) = <<>> THEN Unspec
                    ELSE ArgIndex(agg.chunk[2], vals, pos, start))
              ELSE PrimE(agg.chunk[i], mem, agg.fillI[i], p.nanKeepsNaN)]]]

\* ------------------------------------------------------------ combine
(* _simple_combine: equally laid out IRs stacked on a dummy axis.            *)
CombineSimple(agg, irs, reindexBlockwise) ==
  LET to == IF reindexBlockwise THEN irs[1].groups ELSE UnionSorted(irs)
      laid == [n \in 1..Len(irs) |-> IF reindexBlockwise THEN irs[n] ELSE ReindexIR(agg, irs[n], to)]
  IN [groups |-> to,
      inter |-> [i \in 1..NInter(agg) |->
                   [k \in 1..Len(to) |->
                      NpCombine(agg.combine[i], [n \in 1..Len(irs) |-> laid[n].inter[i][k]])]]]

(* _grouped_combine: concatenate labels and intermediates in list order and  *)
(* re-run the grouped reduction with the combine functions.                  *)
(* (The code's shortcut for a bare dict input is not reachable from dask graphs,  *)
(* whose tree levels always pass lists; a one-element list is re-reduced.)       *)
CombineGrouped(agg, irs, nanKeepsNaN) ==
  LET labs == ConcatAll([n \in 1..Len(irs) |-> irs[n].groups])
      cat(i) == ConcatAll([n \in 1..Len(irs) |-> irs[n].inter[i]])
      gs == SortInts(Dedup(labs))
  IN [groups |-> gs,
      inter |->
        [i \in 1..NInter(agg) |->
           [k \in 1..Len(gs) |->
              LET pos == Positions(labs, gs[k]) IN
              IF IsArg(agg) /\ i = 2
              THEN \* index travelling with the first occurrence of the extreme VALUE
                   LET v == Pick(cat(1), pos)
                       better(a, b) == IF agg.combine[2] = "argmax" THEN Gt(a, b) ELSE Lt(a, b)
                       j == ArgExt(v, better)
                   IN \* a NaN among the partial extrema: the group holds a NaN, where the property
                      \* leaves arg-reductions unspecified (np.argmax would point at the NaN)
                      IF j = 0 \/ HasNaN(v) \/ \E q \in 1..Len(v) : IsUnspec(cat(2)[pos[q]]) THEN Unspec ELSE cat(2)[pos[j]]
              ELSE PrimE(agg.combine[i], Pick(cat(i), pos), agg.fillI[i], nanKeepsNaN)]]]

Combine(agg, irs, simple, reindexBlockwise, nanKeepsNaN) ==
  IF simple THEN CombineSimple(agg, irs, reindexBlockwise) ELSE CombineGrouped(agg, irs, nanKeepsNaN)

\* ------------------------------------------------------------ finalize
VarFinalize(sumsq, sum, count, ddof) ==
  IF Lt(count, I(ddof)) \/ count = I(ddof) THEN NaN
  ELSE Div(Sub(sumsq, Div(Sq(sum), count)), Sub(count, I(ddof)))

FinalizeOne(agg, xs) ==
  CASE agg.finalize = "none"   -> xs[1]
    [] agg.finalize = "mean"   -> Div(xs[1], xs[2])
    [] agg.finalize \in {"var", "std"} -> VarFinalize(xs[1], xs[2], xs[3], agg.ddof)
    [] agg.finalize = "second" -> xs[2]
    [] agg.finalize = "range"  -> Sub(xs[1], xs[2])     \* user library: max - min
    [] agg.finalize = "ratio"  -> Div(xs[1], xs[2])     \* user library: sum of squares / count

(* _finalize_results: finalize, mask by the counter, optionally reindex to   *)
(* the expected labels (absent -> the user's fill).                          *)
Finalize(agg, ir, p) ==
  LET n == NInter(agg)
      hasCount == agg.minCount > 0
      vals == [k \in 1..Len(ir.groups) |->
                 LET xs == [i \in 1..n |-> ir.inter[i][k]]
                     v == FinalizeOne(agg, xs)
                 IN IF hasCount /\ Lt(xs[n], I(agg.minCount))
                    THEN (IF agg.userFill.some THEN agg.userFill.v ELSE Unspec)
                    ELSE v]
  IN IF p.finalReindex
     THEN [groups |-> p.expected,
           result |-> [k \in 1..Len(p.expected) |->
                         LET j == IndexOf(ir.groups, p.expected[k]) IN
                         IF j = 0 THEN (IF agg.userFill.some THEN agg.userFill.v ELSE Unspec) ELSE vals[j]]]
     ELSE [groups |-> ir.groups, result |-> vals]

AggregateSem(agg, irs, p) == Finalize(agg, Combine(agg, irs, p.simple, p.reindexBlockwise, p.nanKeepsNaN), p)

\* ------------------------------------------------------------ blockwise strategy
(* _reduce_blockwise on one block (method="blockwise", and the eager path): the   *)
(* whole reduction is done by the engine on the block (agg.numpy), then masked by *)
(* the counter when min_count > 0.  The block lists its groups sorted or in order *)
(* of appearance (p.sort); the code of the missing label travels as a group.      *)
BlockwiseSem(agg, vals, codes, p) ==
  LET gs == IF p.sort THEN SortInts(Dedup(codes)) ELSE Dedup(codes)
      kw == [ddof |-> agg.ddof, q |-> <<1, 2>>]
  IN [groups |-> gs,
      result |-> [k \in 1..Len(gs) |->
                    LET pos == Positions(codes, gs[k])
                        mem == Pick(vals, pos)
                    IN IF agg.minCount > 0 /\ CountNotNull(mem) < agg.minCount
                       THEN (IF agg.userFill.some THEN agg.userFill.v ELSE Unspec)
                       ELSE IF ~Specified(agg.name, mem) THEN Unspec
                       ELSE IF IsArgFunc(agg.name) THEN I(p.start + pos[RefReduce(agg.name, mem, kw)[1]] - 1)
                       ELSE RefReduce(agg.name, mem, kw)]]

\* IR equality up to unspecified slots, as label -> tuple maps over the
\* labels the specification predicts
IRMatches(exp, got) ==
  /\ exp.groups = got.groups
  /\ Len(exp.inter) = Len(got.inter)
  /\ \A i \in 1..Len(exp.inter) :
        /\ Len(got.inter[i]) = Len(exp.groups)
        /\ \A k \in 1..Len(exp.groups) : Matches(exp.inter[i][k], got.inter[i][k])

ResultMatches(exp, got) ==
  /\ exp.groups = got.groups
  /\ Len(got.result) = Len(exp.groups)
  /\ \A k \in 1..Len(exp.groups) : Matches(exp.result[k], got.result[k])
=============================================================================
