----------------------------- MODULE TraceCohorts ----------------------------
(* Conformance of the REAL planner (flox.core.find_group_cohorts) with the C09   *)
(* relation.  One line = one call: the incidence matrix the harness built the     *)
(* labels/chunks from, the arguments, and what the planner returned.              *)
(*   clause "sound"  (property level): partition / cover / blockwise-only-if-     *)
(*                   confined / no internal assertion                             *)
(*   clause "drift"  (model level, never an alarm): the answer differs from the   *)
(*                   transcribed algorithm of Cohorts.tla                         *)
EXTENDS Cohorts, Json, IOUtils, TLC
VARIABLE l
TraceLog == ndJsonDeserialize(IOEnv.TRACE_FILE)

ToSet(s) == {s[i] : i \in 1..Len(s)}
AsB(r) == [c \in 1..Len(r.B) |-> ToSet(r.B[c])]
AsResult(r) == [method |-> r.method, failed |-> r.failed,
                cohorts |-> {[chunks |-> ToSet(r.cohorts[i].chunks), labels |-> ToSet(r.cohorts[i].labels)] : i \in 1..Len(r.cohorts)}]
\* a label listed twice inside one cohort or in two cohorts is caught by the cardinalities
NoDup(r) == \A i \in 1..Len(r.cohorts) : Cardinality(ToSet(r.cohorts[i].labels)) = Len(r.cohorts[i].labels)

Bad(r) ==
  LET B == AsB(r)
      res == AsResult(r)
      model == FindGroupCohorts(B, r.nl, r.merge, r.single)
      sound == NoDup(r) /\ Cardinality(res.cohorts) = Len(r.cohorts) /\ Sound(res, B, r.nl)
      same == model.method = res.method /\ model.cohorts = res.cohorts /\ model.failed = res.failed
  IN (IF sound THEN {} ELSE {"sound"}) \cup (IF same THEN {} ELSE {"drift"})

Init == l = 1
Next == /\ l <= Len(TraceLog)
        /\ LET r == TraceLog[l] IN
           IF Bad(r) = {} THEN TRUE ELSE PrintT(<<"FAIL", r.id, Bad(r), FindGroupCohorts(AsB(r), r.nl, r.merge, r.single)>>)
        /\ l' = l + 1
Spec == Init /\ [][Next]_l
TraceAccepted == TLCGet("stats").diameter = Len(TraceLog) + 1
=============================================================================
