--------------------------------- MODULE Plan --------------------------------
(***************************************************************************)
(* The decision part of groupby_reduce: validation / refusals, engine,      *)
(* strategy and reindex resolution (flox/core.py: groupby_reduce 2586-2868, *)
(* _validate_reindex, _choose_method, _choose_engine, dask_groupby_agg      *)
(* 1804-1807), over an abstract configuration record                         *)
(*   fclass   "plain" | "arg" | "nanfl" (nanfirst/nanlast) | "fl" (first/   *)
(*            last) | "bwonly" (median, quantile, mode: no chunk function)   *)
(*   engine   "none" | "numpy" | "numba" | "flox" | "numbagg"               *)
(*   method   "none" | "map-reduce" | "cohorts" | "blockwise"               *)
(*   reindex  "none" | "true" | "false"                                      *)
(*   arrDask, byDask, expected (given), dtypeArg (given), floatData          *)
(*   allAxes  reducing over every dimension of the labels                    *)
(*   byNdim   1 | 2                                                          *)
(*   pref     what the planner prefers for the (labels, chunks) at hand:     *)
(*            "blockwise" | "cohorts" | "map-reduce"                         *)
(*   hasCohorts  the planner returned a non-empty cohort dictionary          *)
(*   hasCohortsM the same when asked to merge (method="cohorts" given)        *)
(*   oneBlock    a single block along the reduced axes                       *)
(* Outcome: [kind |-> "ok", method, reindexBlockwise, lazy]                   *)
(*        | [kind |-> "ValueError" | "NotImplementedError"]                   *)
(***************************************************************************)
EXTENDS Integers, Sequences, FiniteSets

Refuse(k) == [kind |-> k, method |-> "-", rb |-> FALSE, lazy |-> FALSE]
Ok(m, rb, lazy) == [kind |-> "ok", method |-> m, rb |-> rb, lazy |-> lazy]

IsArg(c) == c.fclass = "arg"
FirstOrLast(c) == c.fclass = "fl" \/ (c.fclass = "nanfl" /\ ~c.floatData)
AllEager(c) == ~c.arrDask /\ ~c.byDask

\* _validate_reindex(reindex, func, method, expected, any_by_dask, is_dask_array, dtype): refusal or the blockwise flag
\* result: "VE" | "NIE" | "T" | "F" | "N"
ValidateReindex(c, method) ==
  IF c.reindex = "true" /\ ~AllEager(c) /\ IsArg(c) THEN "NIE"
  ELSE IF c.reindex = "true" /\ ~AllEager(c) /\ (method = "cohorts" \/ (method = "blockwise" /\ ~c.byDask)) THEN "VE"
  ELSE IF c.reindex = "true" /\ ~AllEager(c) /\ FirstOrLast(c) THEN "VE"
  ELSE IF c.reindex = "true" THEN "T"
  ELSE IF c.reindex = "false" THEN "F"
  ELSE \* reindex is None
       IF method = "none" THEN "N"
       ELSE IF AllEager(c) THEN "T"
       ELSE IF FirstOrLast(c) THEN "F"
       ELSE IF method = "blockwise" THEN (IF c.byDask THEN "T" ELSE "F")
       ELSE IF IsArg(c) THEN "F"
       ELSE IF method = "cohorts" THEN "F"
       ELSE \* map-reduce
            IF ~c.expected /\ c.byDask THEN "F" ELSE "T"

ChooseMethod(c) ==
  \* the planner is consulted only for numpy labels with method None, or for method cohorts
  LET pref0 == IF (~c.byDask /\ c.method = "none") \/ c.method = "cohorts" THEN c.pref ELSE "map-reduce"
      \* reindexing at the block stage requested and the method left open: only map-reduce can honour it
      pref == IF c.method = "none" /\ c.reindex = "true" /\ c.fclass \notin {"bwonly", "fl"} THEN "map-reduce" ELSE pref0
  IN
  IF c.method # "none" THEN (IF c.method = "cohorts" /\ ~c.hasCohortsM THEN "map-reduce" ELSE c.method)
  ELSE IF c.fclass \in {"bwonly", "fl"} THEN (IF pref # "blockwise" THEN "VE" ELSE "blockwise")   \* no chunk function: blockwise only
  ELSE IF ~c.allAxes THEN "map-reduce"
  ELSE IF IsArg(c) /\ pref = "blockwise" THEN (IF c.hasCohorts THEN "cohorts" ELSE "map-reduce")
  ELSE IF pref = "cohorts" /\ ~c.hasCohorts THEN "map-reduce"
  ELSE pref

\* the refusals decided before the labels are looked at (engine / method / reindex compatibility): "none" or the class
EarlyRefusal(c) ==
  LET anyDask == c.arrDask \/ c.byDask
      v1 == ValidateReindex(c, c.method)
  IN
  IF c.engine = "flox" /\ IsArg(c) THEN "NotImplementedError"
  ELSE IF c.engine = "numbagg" /\ c.dtypeArg THEN "NotImplementedError"
  ELSE IF c.engine = "numbagg" /\ IsArg(c) /\ anyDask THEN "NotImplementedError"
  ELSE IF c.method = "cohorts" /\ c.byDask THEN "ValueError"
  ELSE IF v1 = "VE" THEN "ValueError"
  ELSE IF v1 = "NIE" THEN "NotImplementedError"
  ELSE "none"

Outcome(c) ==
  LET anyDask == c.arrDask \/ c.byDask
      v1 == ValidateReindex(c, c.method)
  IN
  IF EarlyRefusal(c) # "none" THEN Refuse(EarlyRefusal(c))
  ELSE IF c.byDask /\ v1 = "T" /\ ~c.expected THEN Refuse("ValueError")
  ELSE IF c.fclass \in {"fl", "nanfl"} /\ anyDask /\ c.byNdim = 2 /\ c.allAxes THEN Refuse("ValueError")   \* first/last: one axis only for dask
  ELSE IF ~c.allAxes /\ c.byNdim > 1 /\ c.byDask /\ ~c.expected THEN Refuse("NotImplementedError")
  ELSE IF ~anyDask THEN Ok("eager", TRUE, FALSE)
  ELSE
    LET m == ChooseMethod(c) IN
    IF m = "VE" THEN Refuse("ValueError")
    ELSE IF c.fclass \in {"bwonly", "fl"} /\ m # "blockwise" THEN Refuse("NotImplementedError")
    ELSE IF IsArg(c) /\ m = "blockwise" /\ ~c.oneBlock THEN Refuse("NotImplementedError")
    ELSE IF IsArg(c) /\ m # "blockwise" /\ c.byNdim = 2 /\ c.allAxes THEN Refuse("NotImplementedError")   \* several reduced axes
    ELSE IF ~c.allAxes /\ m \in {"blockwise", "cohorts"} THEN Refuse("NotImplementedError")
    ELSE LET \* the second _validate_reindex call receives the ReindexStrategy resolved by the first one: its refusals test
             \* `reindex is True` (the bool) and are skipped, a decided True/False is kept, only "not yet decided" is
             \* resolved with the method finally chosen
             v2 == IF v1 \in {"T", "F"} THEN v1 ELSE ValidateReindex(c, m) IN
         IF v2 = "VE" THEN Refuse("ValueError")
         ELSE IF v2 = "NIE" THEN Refuse("NotImplementedError")
         ELSE IF ~c.expected /\ c.byDask /\ v2 = "T" THEN Refuse("ValueError")
         ELSE IF m = "cohorts" /\ v2 = "T" THEN Refuse("ValueError")
         \* deviation: reindex=True with the method left open and a blockwise plan chosen automatically (order statistics)
         \* slips past the reindex/blockwise refusal above and fails in graph construction with dask's own ValueError
         \* ("Dimension 0 has N blocks, adjust_chunks specified with 1 blocks") as soon as there is more than one block
         ELSE IF m = "blockwise" /\ v2 = "T" /\ ~c.byDask /\ ~c.oneBlock THEN Refuse("ValueError")
         ELSE Ok(m, v2 = "T", TRUE)

(***************************************************************************)
(* _choose_engine (engine=None): transcribed decision table.                *)
(*   nanSkipping   the blueprint's block functions skip NaN (nan* names,     *)
(*                 count) ; sortedLabels: in-memory labels in ascending order *)
(***************************************************************************)
ChooseEngine(c, nanSkipping, sortedLabels, boolFamily) ==
  IF c.engine # "none" THEN c.engine
  ELSE IF c.fclass = "bwonly" THEN "flox"                                   \* order statistics: the vectorised kernel
  ELSE IF boolFamily \/ (~IsArg(c) /\ nanSkipping /\ ~c.dtypeArg) THEN "numbagg"
  ELSE IF ~IsArg(c) /\ ~c.byDask /\ sortedLabels THEN "flox"
  ELSE "numpy"

CleanKinds == {"ok", "ValueError", "NotImplementedError", "ImportError"}
=============================================================================
