------------------------------- MODULE MC_Laws -------------------------------
(***************************************************************************)
(* C04 (and the algebraic half of C03): laws of the chunk/combine/finalize *)
(* decomposition for every blueprint of the LIVE registry and the driver's *)
(* user-defined Aggregation objects (gen/AggTable.tla).                    *)
(* State machine: grow one group's member sequence symbol by symbol; in    *)
(* every state, for EVERY split of the sequence into three ordered parts   *)
(* (empty parts included: a block where the group is absent), every        *)
(* combine kind / reindex mode reachable for the blueprint:                 *)
(*   Exact      finalize(combine(chunk(p1),chunk(p2),chunk(p3))) = whole    *)
(*   Bracket    combine is insensitive to the bracketing of the tree        *)
(*   Neutral    a block where the group is absent changes nothing           *)
(***************************************************************************)
EXTENDS Aggs, AggTable, TLC

CONSTANTS MaxLen, DtypeClass

AlphaF8 == {<<-2,1>>, <<-1,1>>, <<0,1>>, <<1,1>>, <<3,1>>, <<0,0>>, <<1,0>>, <<-1,0>>}
AlphaI8 == {<<-2,1>>, <<-1,1>>, <<0,1>>, <<1,1>>, <<3,1>>}
AlphaB1 == {<<0,1>>, <<1,1>>}
Alphabet == IF DtypeClass = "f8" THEN AlphaF8 ELSE IF DtypeClass = "i8" THEN AlphaI8 ELSE AlphaB1

Rows == {i \in 1..Len(AggTable) : AggTable[i].dtype = DtypeClass}

Modes(agg) ==
  IF agg.rtype = "argreduce" \/ (agg.name \in {"nanfirst", "nanlast"} /\ DtypeClass # "f8")
  THEN {[simple |-> FALSE, rb |-> FALSE]}
  ELSE {[simple |-> TRUE, rb |-> TRUE], [simple |-> TRUE, rb |-> FALSE], [simple |-> FALSE, rb |-> FALSE]}

VARIABLE s
Init == s = <<>>
Grow == Len(s) < MaxLen /\ \E v \in Alphabet : s' = Append(s, v)
Next == Grow
Spec == Init /\ [][Next]_s

Zeros(n) == [i \in 1..n |-> 0]
Block(agg, part, start, m) ==
  ChunkSem(agg, part, Zeros(Len(part)), start,
           [reindex |-> m.rb, expected |-> <<0>>, dropMissing |-> m.rb, nanKeepsNaN |-> FALSE])
Comb(agg, irs, m) == Combine(agg, irs, m.simple, m.rb, FALSE)
Fin(agg, irs, m) ==
  AggregateSem(agg, irs, [simple |-> m.simple, reindexBlockwise |-> m.rb, finalReindex |-> ~m.rb,
                          expected |-> <<0>>, nanKeepsNaN |-> FALSE])

RefMinCount(agg) == IF agg.userFill.some /\ agg.minCount > 0 THEN agg.minCount ELSE -1
Whole(agg) == RefSlot(agg.name, s, Zeros(Len(s)), 0, agg.userFill, RefMinCount(agg), [ddof |-> agg.ddof, q |-> <<1, 2>>])

Splits == {<<a, b>> \in (0..Len(s)) \X (0..Len(s)) : a <= b}
P1(sp) == SubSeq(s, 1, sp[1])
P2(sp) == SubSeq(s, sp[1] + 1, sp[2])
P3(sp) == SubSeq(s, sp[2] + 1, Len(s))

\* IR equality where both sides are specified
SameIR(x, y) ==
  /\ x.groups = y.groups
  /\ \A i \in 1..Len(x.inter) : \A k \in 1..Len(x.groups) :
        IsUnspec(x.inter[i][k]) \/ IsUnspec(y.inter[i][k]) \/ x.inter[i][k] = y.inter[i][k]

Lawful(agg) == agg.lawful

Exact ==
  s # <<>> =>
    \A r \in Rows : \A m \in Modes(AggTable[r]) : \A sp \in Splits :
      LET agg == AggTable[r]
          b1 == Block(agg, P1(sp), 0, m)
          b2 == Block(agg, P2(sp), sp[1], m)
          b3 == Block(agg, P3(sp), sp[2], m)
          res == Fin(agg, <<b1, b2, b3>>, m)
      IN Lawful(agg) => (res.groups = <<0>> /\ (Matches(Whole(agg), res.result[1]) \/ IsUnspec(res.result[1])))

Bracket ==
  s # <<>> =>
    \A r \in Rows : \A m \in Modes(AggTable[r]) : \A sp \in Splits :
      LET agg == AggTable[r]
          b1 == Block(agg, P1(sp), 0, m)
          b2 == Block(agg, P2(sp), sp[1], m)
          b3 == Block(agg, P3(sp), sp[2], m)
          flat == Comb(agg, <<b1, b2, b3>>, m)
          left == Comb(agg, <<Comb(agg, <<b1, b2>>, m), b3>>, m)
          right == Comb(agg, <<b1, Comb(agg, <<b2, b3>>, m)>>, m)
      IN Lawful(agg) => (SameIR(flat, left) /\ SameIR(flat, right))

\* diagnostics: which (blueprint, mode, split) break Exact (shown through ALIAS in counterexamples)
ExactBad ==
  IF s = <<>> THEN {} ELSE
  {x \in {<<r, m, sp>> : r \in Rows, m \in UNION {Modes(AggTable[q]) : q \in Rows}, sp \in Splits} :
      /\ x[2] \in Modes(AggTable[x[1]])
      /\ LET agg == AggTable[x[1]]
             res == Fin(agg, <<Block(agg, P1(x[3]), 0, x[2]), Block(agg, P2(x[3]), x[3][1], x[2]), Block(agg, P3(x[3]), x[3][2], x[2])>>, x[2])
         IN Lawful(agg) /\ ~(res.groups = <<0>> /\ (Matches(Whole(agg), res.result[1]) \/ IsUnspec(res.result[1])))}
Dbg == [s |-> s, bad |-> {<<AggTable[x[1]].name, AggTable[x[1]].minCount, x[2], x[3]>> : x \in ExactBad}]

Neutral ==
  s # <<>> =>
    \A r \in Rows : \A m \in Modes(AggTable[r]) :
      LET agg == AggTable[r]
          b == Block(agg, s, 0, m)
          e == Block(agg, <<>>, Len(s), m)
      IN Lawful(agg) => (SameIR(Comb(agg, <<b>>, m), Comb(agg, <<b, e>>, m)) /\ SameIR(Comb(agg, <<b>>, m), Comb(agg, <<e, b>>, m)))
=============================================================================
