-------------------------------- MODULE Dtypes --------------------------------
(***************************************************************************)
(* Result-dtype rules (C11).  Dtypes are strings: b1 i1 i2 i4 i8 u1 u2 u4   *)
(* u8 f4 f8 M8 m8.  RefDtype is the convention the property states:         *)
(*   sums / products     default-integer promotion (bool, narrow ints ->    *)
(*                       i8, unsigned -> u8), floats kept                   *)
(*   mean / var / std    floating: f4 stays f4, everything else f8          *)
(*                       (mean of datetimes stays datetime)                 *)
(*   min max first last  the input dtype                                    *)
(*   count, arg-*        the platform integer i8                            *)
(*   any / all           b1                                                 *)
(*   dtype= given        that dtype                                         *)
(*   a requested fill_value widens the result so that it can hold the fill  *)
(* The result must not depend on engine, strategy or chunking, and what a   *)
(* lazy result announces must be what its blocks have.                      *)
(***************************************************************************)
EXTENDS Integers, Sequences, FiniteSets

Kind(d) == CASE d = "b1" -> "b" [] d \in {"i1", "i2", "i4", "i8"} -> "i" [] d \in {"u1", "u2", "u4", "u8"} -> "u"
             [] d \in {"f4", "f8"} -> "f" [] d = "M8" -> "M" [] d = "m8" -> "m"

SumFamily == {"sum", "nansum", "prod", "nanprod"}
FloatFamily == {"mean", "nanmean", "var", "nanvar", "std", "nanstd"}
KeepFamily == {"max", "nanmax", "min", "nanmin", "first", "nanfirst", "last", "nanlast"}
IntFamily == {"count", "argmax", "argmin", "nanargmax", "nanargmin"}
BoolFamily == {"any", "all"}

PromoteInt(d) == CASE Kind(d) \in {"b", "i"} -> "i8" [] Kind(d) = "u" -> "u8" [] OTHER -> d
Floating(d) == IF Kind(d) \in {"f", "M", "m"} THEN d ELSE "f8"

Base(func, d) ==
  CASE func \in SumFamily -> PromoteInt(d)
    [] func \in FloatFamily -> Floating(d)
    [] func \in KeepFamily -> d
    [] func \in IntFamily -> "i8"
    [] func \in BoolFamily -> "b1"

\* fill: "none" | "nan" | "int" (a small non-negative integer)
Widen(t, fill) ==
  CASE fill = "none" -> t
    [] fill = "nan" -> (IF Kind(t) \in {"f", "M", "m"} THEN t ELSE "f8")
    [] fill = "int" -> (IF Kind(t) = "b" THEN "i8" ELSE t)

RefDtype(func, d, user, fill) == Widen(IF user = "none" THEN Base(func, d) ELSE user, fill)
=============================================================================
