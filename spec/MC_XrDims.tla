-------------------------------- MODULE MC_XrDims -------------------------------
(* All objects of 1-4 dimensions in every order, 1-D and 2-D groupers, every `dim`: *)
(* structural properties of the dims rule (no dimension lost or duplicated, the      *)
(* group dimension appears exactly once, kept dimensions keep their relative order). *)
EXTENDS XrDims, TLC
Names == {"x", "y", "z", "t"}
VARIABLE c
RECURSIVE Perms(_)
Perms(S) == IF S = {} THEN {<<>>} ELSE UNION {{<<e>> \o p : p \in Perms(S \ {e})} : e \in S}
Objs == UNION {Perms(S) : S \in (SUBSET Names) \ {{}}}
Cells == {x \in [obj : Objs, g : UNION {Perms(S) : S \in {T \in SUBSET Names : Cardinality(T) \in {1, 2}}}, red : SUBSET Names, ds : BOOLEAN] :
            ToSet(x.g) \subseteq ToSet(x.obj) /\ ToSet(x.g) \subseteq x.red /\ x.red \subseteq ToSet(x.obj)}
Init == c \in Cells
Next == UNCHANGED c
Spec == Init /\ [][Next]_c
Out == NativeDimsOf(c.obj, c.g, c.red, "grp", c.ds)
GroupOnce == Cardinality({i \in 1..Len(Out) : Out[i] = "grp"}) = 1
KeptExactly == ToSet(Out) \ {"grp"} = ToSet(c.obj) \ c.red
NoDuplicates == Cardinality(ToSet(Out)) = Len(Out)
OrderKept == \A i, j \in 1..Len(Out) : (i < j /\ Out[i] # "grp" /\ Out[j] # "grp") =>
               (CHOOSE a \in 1..Len(c.obj) : c.obj[a] = Out[i]) < (CHOOSE b \in 1..Len(c.obj) : c.obj[b] = Out[j])
=============================================================================
