-------------------------------- MODULE TraceLazy ------------------------------
(* Trace specification for C12: the event stream of one API call on poisoned       *)
(* (probe-wrapped) chunked inputs must be a behaviour of Lifecycle.tla.  Events:     *)
(*   [ev |-> "call"]  [ev |-> "eval", c]  [ev |-> "return", lazy]  [ev |-> "compute"] *)
(* "eval" is Lifecycle!EvalChunk and is enabled only in phase computing.             *)
EXTENDS Integers, Sequences, FiniteSets, Json, IOUtils, TLC
VARIABLES l, phase
TraceLog == ndJsonDeserialize(IOEnv.TRACE_FILE)
Init == l = 1 /\ phase = "idle"

Bad(r) ==
  CASE r.ev = "call"    -> IF phase \in {"idle", "computing", "returned"} THEN {} ELSE {"nested-call"}
    [] r.ev = "eval"    -> IF phase = "computing" THEN {} ELSE {"chunk-evaluated-while-" \o phase}
    [] r.ev = "return"  -> (IF phase = "constructing" THEN {} ELSE {"return-out-of-order"}) \cup (IF r.lazy THEN {} ELSE {"not-lazy"})
    [] r.ev = "compute" -> IF phase = "returned" THEN {} ELSE {"compute-out-of-order"}
NextPhase(r) ==
  CASE r.ev = "call" -> "constructing" [] r.ev = "return" -> "returned" [] r.ev = "compute" -> "computing" [] OTHER -> phase

Next == /\ l <= Len(TraceLog)
        /\ LET r == TraceLog[l] IN
           /\ (IF Bad(r) = {} THEN TRUE ELSE PrintT(<<"FAIL", r.id, Bad(r)>>))
           /\ phase' = NextPhase(r)
        /\ l' = l + 1
Spec == Init /\ [][Next]_<<l, phase>>
TraceAccepted == TLCGet("stats").diameter = Len(TraceLog) + 1
=============================================================================
