---------------------------------- MODULE TraceXr -------------------------------
(* Trace specification for C15.  One line = one object x grouper x dim x function:  *)
(* the dims returned by xarray_reduce and by native xarray (flox disabled) and the   *)
(* comparisons made on the two results.  Property-level clauses: "dims", "coords",   *)
(* "values", "attrs", "name", "core" (values equal groupby_reduce on the underlying  *)
(* arrays), "passthrough" (variables lacking the reduced dimension unchanged).       *)
(* Model-level clause (DRIFT only): native dims = XrDims!NativeDims.                  *)
EXTENDS XrDims, Json, IOUtils, TLC
VARIABLE l
TraceLog == ndJsonDeserialize(IOEnv.TRACE_FILE)
Bad(r) ==
  (IF r.flox_dims = r.native_dims THEN {} ELSE {"dims"})
  \cup (IF r.same_coords THEN {} ELSE {"coords"}) \cup (IF r.same_values THEN {} ELSE {"values"})
  \cup (IF r.same_attrs THEN {} ELSE {"attrs"}) \cup (IF r.same_name THEN {} ELSE {"name"})
  \cup (IF r.core_ok THEN {} ELSE {"core"}) \cup (IF r.passthrough_ok THEN {} ELSE {"passthrough"})
  \cup (IF r.predict /\ NativeDimsOf(r.objdims, r.gdims, ToSet(r.reduce), r.gname, r.dataset) # r.native_dims THEN {"drift"} ELSE {})
Init == l = 1
Next == /\ l <= Len(TraceLog)
        /\ LET r == TraceLog[l] IN IF Bad(r) = {} THEN TRUE ELSE PrintT(<<"FAIL", r.id, Bad(r), NativeDimsOf(r.objdims, r.gdims, ToSet(r.reduce), r.gname, r.dataset)>>)
        /\ l' = l + 1
Spec == Init /\ [][Next]_l
TraceAccepted == TLCGet("stats").diameter = Len(TraceLog) + 1
=============================================================================
