----------------------------- MODULE MC_Factorize ----------------------------
(* C05 / C07 / C08 / C16 at design level: the transcribed factorisation yields *)
(* exactly the codes the properties talk about.                                *)
EXTENDS Factorize, TLC
CONSTANTS MaxLen, NTok

Toks == 0..(NTok - 1)
\* all requested-label sequences without repeats over the tokens (sorted, unsorted, sub/supersets, disjoint)
RECURSIVE NoDupSeqs(_)
\* all sequences of length <= n over the tokens without repeats
NoDupSeqs(n) == IF n = 0 THEN {<<>>}
                ELSE LET prev == NoDupSeqs(n - 1)
                         ext == {Append(p, t) : p \in {q \in prev : Len(q) = n - 1}, t \in Toks}
                     IN prev \cup {q \in ext : NoRepeats(q)}
Requests == {e \in NoDupSeqs(3) : e # <<>>}

VARIABLES by, e, sort, mode
vars == <<by, e, sort, mode>>
Init == by = <<>> /\ e \in Requests /\ sort \in BOOLEAN /\ mode \in {"expected", "found"}
Grow == Len(by) < MaxLen /\ \E t \in Toks \cup {-1} : by' = Append(by, t) /\ UNCHANGED <<e, sort, mode>>
Next == Grow
Spec == Init /\ [][Next]_vars

F == IF mode = "expected" THEN FactorizeExpected(by, e, sort) ELSE FactorizeFound(by, sort)
Req == IF mode = "expected" THEN [some |-> TRUE, v |-> e] ELSE [some |-> FALSE, v |-> <<>>]

\* the output slots are the sort contract (C05, C16)
GroupsAreContract == F.groups = RefGroups(by, Req, sort)
\* an element is coded -1 iff its label is missing or not requested; otherwise its code is the slot of its label
CodesPointAtSlots ==
  \A i \in 1..Len(by) :
     IF by[i] < 0 \/ ~IsIn(F.groups, by[i]) THEN F.codes[i] = -1
     ELSE F.codes[i] >= 0 /\ F.groups[F.codes[i] + 1] = by[i]

\* pandas.cut on the edge alphabet, both closed sides
Edges == << <<0,1>>, <<2,1>>, <<5,1>> >>
Probe == {<<0,1>>, <<1,1>>, <<2,1>>, <<3,1>>, <<5,1>>, <<-1,1>>, <<6,1>>, <<0,0>>, <<1,0>>, <<-1,0>>}
BinsLikeCut == \A x \in Probe : \A right \in BOOLEAN :
                  /\ FactorizeBins(x, Edges, right) = RefCut(x, Edges, right)
                  /\ FactorizeBins(x, << <<0,1>> >>, right) = -1

\* tuple keys: the raveled code of a tuple of in-range codes is injective and row-major; any -1 gives -1
RavelOk == \A a \in -1..1, b \in -1..2 :
             LET c == RavelFactorized(<<a, b>>, <<2, 3>>) IN
             IF a = -1 \/ b = -1 THEN c = -1 ELSE c = a * 3 + b
\* per-slice offsets never make two slices share a code and keep -1
OffsetsOk == \A c1, c2 \in -1..2, s1, s2 \in 0..2 :
               /\ OffsetLabel(-1, s1, 3) = -1
               /\ (c1 >= 0 /\ c2 >= 0 /\ OffsetLabel(c1, s1, 3) = OffsetLabel(c2, s2, 3)) => (c1 = c2 /\ s1 = s2)
=============================================================================
