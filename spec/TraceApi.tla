--------------------------------- MODULE TraceApi ------------------------------
(* Trace specification for C14.  Lines:                                            *)
(*  kind "pair"   two (or three) lazy results differing in one ingredient, built     *)
(*                over the same argument buffers: conflicts = shared keys whose two   *)
(*                task definitions produce different values (a LATENT hazard: reported  *)
(*                as drift, the property speaks of values); together_equal = the       *)
(*                merged-graph evaluation (both orders) equals the separate ones;      *)
(*                args_unchanged                                                      *)
(*  kind "ref"    call c made FIRST in a fresh process: its result digest              *)
(*  kind "hist"   one step of a call history replayed in a fresh process               *)
(* The stateful part: the reference digest of every call is remembered and every       *)
(* later occurrence of that call in any history must reproduce it.                     *)
EXTENDS Integers, Sequences, FiniteSets, Json, IOUtils, TLC
VARIABLES l, ref
TraceLog == ndJsonDeserialize(IOEnv.TRACE_FILE)
Init == l = 1 /\ ref = <<>>
Lookup(c) == IF \E i \in 1..Len(ref) : ref[i][1] = c THEN ref[CHOOSE i \in 1..Len(ref) : ref[i][1] = c][2] ELSE "?"
Bad(r) ==
  CASE r.kind = "pair" -> (IF r.conflicts = <<>> THEN {} ELSE {"latent-key-conflict"})
                          \cup (IF r.together_equal THEN {} ELSE {"co-computed-differs"})
                          \cup (IF r.args_unchanged THEN {} ELSE {"argument-modified"})
    [] r.kind = "ref"  -> {}
    [] r.kind = "hist" -> (IF r.args_unchanged THEN {} ELSE {"argument-modified"})
                          \cup (IF r.registry_unchanged THEN {} ELSE {"registry-modified"})
                          \cup (IF Lookup(r.call) = r.dig THEN {} ELSE {"history-dependent-result"})
Next == /\ l <= Len(TraceLog)
        /\ LET r == TraceLog[l] IN
           /\ (IF Bad(r) = {} THEN TRUE ELSE PrintT(<<"FAIL", r.id, Bad(r)>>))
           /\ ref' = IF r.kind = "ref" THEN Append(ref, <<r.call, r.dig>>) ELSE ref
        /\ l' = l + 1
Spec == Init /\ [][Next]_<<l, ref>>
TraceAccepted == TLCGet("stats").diameter = Len(TraceLog) + 1
=============================================================================
