---------------------------------- MODULE Api ---------------------------------
(***************************************************************************)
(* Process-level state of flox (C14): the registry of aggregations, the     *)
(* memoisation cache, and the key space shared by all pending lazy results. *)
(*                                                                          *)
(* Part 1 — key names.  Every layer family f of a reduction/scan graph has  *)
(* a set SemDependsOn[f] of ingredients that change what its tasks compute. *)
(* gen/NameDeps.tla holds NameDependsOn[f]: the ingredients that change the *)
(* family's key NAMES, observed on the live code (harness/extract.py builds, *)
(* for every ingredient, two lazy results differing only in it).  Merging   *)
(* graphs is a union of key -> task maps, so two results can be computed    *)
(* together safely iff names are injective w.r.t. semantics.                *)
(*                                                                          *)
(* Part 2 — call histories.  Calls c in Calls are made in any order; the     *)
(* memo cache is keyed by the projection MemoKey(c); a result may be served  *)
(* from the cache.  History independence holds iff MemoKey determines the    *)
(* memoised value.                                                           *)
(***************************************************************************)
EXTENDS Integers, Sequences, FiniteSets, TLC, NameDeps

Families == {"chunk", "tree", "cohort_subset", "cohort_reduce", "argpre", "scanpre", "extract"}

\* ingredients that change what the tasks of a family compute (conservative: only the certain ones)
SemDependsOn(f) ==
  CASE f = "chunk"         -> {"array", "labels", "func", "dtype"}
    [] f = "tree"          -> {"array", "labels", "func", "ddof", "min_count", "fill_value", "dtype", "expected"}
    [] f = "cohort_subset" -> {"array", "labels", "func"}
    [] f = "cohort_reduce" -> {"array", "labels", "func", "ddof", "min_count", "fill_value", "dtype", "expected"}
    [] f = "argpre"        -> {"array"}
    [] f = "scanpre"       -> {"array", "labels"}
    [] f = "extract"       -> {"array", "labels", "func", "ddof", "q", "min_count", "fill_value", "dtype", "expected"}

\* an ingredient was observed for family f at all (the family occurs in the graphs built for that ingredient)
Observed(f, i) == <<f, i>> \in ObservedPairs

NamesInjective == \A f \in Families : \A i \in SemDependsOn(f) : Observed(f, i) => <<f, i>> \in NameChanges

MissingFromNames == {<<f, i>> \in Families \X Ingredients : i \in SemDependsOn(f) /\ Observed(f, i) /\ <<f, i>> \notin NameChanges}

\* ---------------------------------------------------------------- histories
CONSTANTS NCalls, MaxHist
Calls == 1..NCalls
VARIABLES hist, cache, registry
vars == <<hist, cache, registry>>

\* the memoised helper (_get_optimal_chunks_for_groups) is keyed by tokenize(chunks, labels): calls that
\* share a memo key share (chunks, labels), which is all the helper reads
MemoKey(c) == MemoKeyOf[c]
MemoInputs(c) == MemoInputsOf[c]

Init == hist = <<>> /\ cache = {} /\ registry = "pristine"
Call(c) == /\ Len(hist) < MaxHist
           /\ hist' = Append(hist, c)
           /\ cache' = cache \cup {MemoKey(c)}
           /\ registry' = registry          \* blueprints are deep-copied before being specialised
Next == \E c \in Calls : Call(c)
Spec == Init /\ [][Next]_vars

RegistryUntouched == registry = "pristine"
\* a cache hit can only serve the value computed from the same inputs
MemoSound == \A c, d \in Calls : MemoKey(c) = MemoKey(d) => MemoInputs(c) = MemoInputs(d)
EmitHistory == Len(hist) = MaxHist => PrintT(<<"HIST", hist>>)
=============================================================================
