------------------------------- MODULE Values -------------------------------
(***************************************************************************)
(* Exact value domain shared by every module of the flox specification.    *)
(*                                                                         *)
(* A value is a pair <<n, d>>:                                             *)
(*   d > 0   the rational n/d in lowest terms                              *)
(*   <<0,0>>  NaN (also NaT)                                                *)
(*   <<1,0>>  +inf          <<-1,0>>  -inf                                  *)
(*   <<0,-1>> "unspecified": a slot about which the property says nothing  *)
(* Arithmetic follows IEEE-754 for the special values; finite arithmetic   *)
(* is exact, so "the same whatever the bracketing" can be compared         *)
(* literally.  Signed zero is not modelled.                                *)
(***************************************************************************)
EXTENDS Integers, Sequences, FiniteSets

Abs(x) == IF x < 0 THEN -x ELSE x

RECURSIVE GCD(_, _)
GCD(a, b) == IF b = 0 THEN a ELSE GCD(b, a % b)

NaN  == <<0, 0>>
PInf == <<1, 0>>
NInf == <<-1, 0>>
Unspec == <<0, -1>>
Zero == <<0, 1>>
One  == <<1, 1>>

IsNaN(v)  == v[2] = 0 /\ v[1] = 0
IsInf(v)  == v[2] = 0 /\ v[1] # 0
IsFin(v)  == v[2] > 0
IsUnspec(v) == v[2] < 0
NotNull(v) == ~IsNaN(v)

\* normalised rational n/d for d # 0
Q(n, d) ==
  LET s == IF d < 0 THEN -1 ELSE 1
      g == GCD(Abs(n), Abs(d))
  IN  IF n = 0 THEN <<0, 1>> ELSE <<(s * n) \div g, (s * d) \div g>>

I(n) == <<n, 1>>

Sgn(v) == IF v[1] > 0 THEN 1 ELSE IF v[1] < 0 THEN -1 ELSE 0

Neg(a) == IF IsNaN(a) THEN NaN ELSE <<-a[1], a[2]>>

Add(a, b) ==
  IF IsNaN(a) \/ IsNaN(b) THEN NaN
  ELSE IF IsInf(a) /\ IsInf(b) THEN (IF a = b THEN a ELSE NaN)
  ELSE IF IsInf(a) THEN a
  ELSE IF IsInf(b) THEN b
  ELSE Q(a[1] * b[2] + b[1] * a[2], a[2] * b[2])

Sub(a, b) == Add(a, Neg(b))

Mul(a, b) ==
  IF IsNaN(a) \/ IsNaN(b) THEN NaN
  ELSE IF IsInf(a) \/ IsInf(b)
       THEN (IF Sgn(a) = 0 \/ Sgn(b) = 0 THEN NaN ELSE <<Sgn(a) * Sgn(b), 0>>)
  ELSE Q(a[1] * b[1], a[2] * b[2])

\* IEEE division (the divisor's zero is +0)
Div(a, b) ==
  IF IsNaN(a) \/ IsNaN(b) THEN NaN
  ELSE IF IsInf(a) /\ IsInf(b) THEN NaN
  ELSE IF IsInf(a) THEN (IF Sgn(b) < 0 THEN Neg(a) ELSE a)
  ELSE IF IsInf(b) THEN Zero
  ELSE IF b[1] = 0 THEN (IF a[1] = 0 THEN NaN ELSE <<Sgn(a), 0>>)
  ELSE Q(a[1] * b[2], a[2] * b[1])

Sq(a) == Mul(a, a)

Rank(v) == IF IsInf(v) THEN v[1] ELSE 0

\* strict order on non-NaN values
Lt(a, b) ==
  IF IsInf(a) \/ IsInf(b) THEN Rank(a) < Rank(b)
  ELSE a[1] * b[2] < b[1] * a[2]

Le(a, b) == a = b \/ Lt(a, b)

\* NaN-propagating extrema (np.maximum / np.minimum)
Max2(a, b) == IF IsNaN(a) \/ IsNaN(b) THEN NaN ELSE IF Lt(a, b) THEN b ELSE a
Min2(a, b) == IF IsNaN(a) \/ IsNaN(b) THEN NaN ELSE IF Lt(b, a) THEN b ELSE a
\* NaN-skipping extrema (np.fmax / np.fmin)
FMax2(a, b) == IF IsNaN(a) THEN b ELSE IF IsNaN(b) THEN a ELSE IF Lt(a, b) THEN b ELSE a
FMin2(a, b) == IF IsNaN(a) THEN b ELSE IF IsNaN(b) THEN a ELSE IF Lt(b, a) THEN b ELSE a

\* floor / ceil of a finite non-negative rational, as integers
Floor(v) == v[1] \div v[2]
Ceil(v)  == IF v[1] % v[2] = 0 THEN v[1] \div v[2] ELSE (v[1] \div v[2]) + 1

\* wrap an integer value into a two's-complement / unsigned width
WrapInt(n, bits, signed) ==
  LET m == 2 ^ bits
      r == n % m
  IN  IF signed /\ r >= m \div 2 THEN r - m ELSE r

\* ---------------------------------------------------------------- folds
RECURSIVE FoldSeq(_, _, _)
FoldSeq(op(_, _), acc, s) ==
  IF s = <<>> THEN acc ELSE FoldSeq(op, op(acc, Head(s)), Tail(s))

SumSeq(s)  == FoldSeq(Add, Zero, s)
ProdSeq(s) == FoldSeq(Mul, One, s)
DropNaN(s) == SelectSeq(s, NotNull)
CountNotNull(s) == Len(DropNaN(s))

\* Equality up to "unspecified" (an unspecified expected slot matches anything)
Matches(expected, got) == IsUnspec(expected) \/ expected = got
=============================================================================
