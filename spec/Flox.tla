--------------------------------- MODULE Flox ---------------------------------
(***************************************************************************)
(* The composition: one chunked groupby_reduce call as a state machine      *)
(*                                                                          *)
(*   input --Call--> called --Factorize--> factorized --PlanStep-->         *)
(*         planned | refused  --Execute--> executed --Finish--> done        *)
(*                                                                          *)
(* built from the component specifications:                                  *)
(*   Factorize.tla   labels -> codes / output slots (sort contract)          *)
(*   Cohorts.tla     the planner's preference and cohorts (instance C)       *)
(*   Plan.tla        refusals, strategy and reindex resolution (instance P)  *)
(*   Rechunk.tla     the automatic rechunk of explicit blockwise (instance R) *)
(*   Aggs.tla        block stage, combine tree, finalize, blockwise blocks   *)
(*   AggTable.tla    the LIVE blueprint table (generated)                    *)
(* Invariants: whatever strategy Plan resolves (map-reduce, cohorts,         *)
(* blockwise or the automatic choice), the finished call returns, for every  *)
(* output slot, the reference value of that slot's label (C02, C05, C16),    *)
(* and a refusal is one of the clean classes (C19).                          *)
(***************************************************************************)
EXTENDS Aggs, AggTable, Factorize, TLC

CONSTANTS MaxLen, MinLen, NLabels, SplitEvery, Names, Wide,
          Reindexes,     \* subset of {"none", "true", "false"}: the reindex= argument
          ByDasks,       \* subset of BOOLEAN: labels given as a chunked array
          ArrDasks,      \* subset of BOOLEAN: the array is chunked (TRUE) or in memory (FALSE: the eager path)
          Engines,       \* subset of {"none", "numpy", "flox", "numbagg"}: the engine= argument
          NLabels2       \* 0: one grouper only; > 0: calls with a SECOND grouper over labels 0..NLabels2-1 are explored too

C == INSTANCE Cohorts
P == INSTANCE Plan
R == INSTANCE Rechunk

AlphaF8 == IF Wide THEN {<<-2,1>>, <<1,1>>, <<3,1>>, <<0,0>>, <<1,0>>, <<-1,0>>} ELSE {<<-2,1>>, <<1,1>>, <<0,0>>}
Rows == {i \in 1..Len(AggTable) : AggTable[i].dtype = "f8" /\ AggTable[i].name \in Names /\ AggTable[i].lawful}
Req == [i \in 1..NLabels |-> NLabels - i]          \* requested labels, given in DESCENDING order (unsorted on purpose)

VARIABLES vals, labs, labs2, cuts, cfg, phase, fact, plan, byCode, result
vars == <<vals, labs, labs2, cuts, cfg, phase, fact, plan, byCode, result>>
Req2 == [i \in 1..NLabels2 |-> NLabels2 - i]

Init == /\ vals = <<>> /\ labs = <<>> /\ labs2 = <<>> /\ cuts = <<>> /\ phase = "input"
        /\ cfg = [row |-> 0] /\ fact = [groups |-> <<>>, codes |-> <<>>] /\ plan = [kind |-> "-"] /\ byCode = <<>> /\ result = <<>>

Grow == /\ phase = "input" /\ Len(vals) < MaxLen
        /\ \E v \in AlphaF8, l \in (0..(NLabels - 1)) \cup {-1}, cut \in BOOLEAN,
              l2 \in (IF NLabels2 = 0 THEN {0} ELSE (0..(NLabels2 - 1)) \cup {-1}) :
             vals' = Append(vals, v) /\ labs' = Append(labs, l) /\ labs2' = Append(labs2, l2) /\ cuts' = Append(cuts, cut)
        /\ UNCHANGED <<cfg, phase, fact, plan, byCode, result>>

\* the call's configuration is chosen in three steps (a product of independent choices made as a sum: keeps the
\* branching of any single step small for TLC's simulation mode; the reachable configurations are the same)
CallA == /\ phase = "input" /\ Len(vals) >= MinLen /\ vals # <<>>
         /\ \E r \in Rows, two \in (IF NLabels2 = 0 THEN {FALSE} ELSE BOOLEAN), en \in Engines :
              \* two groupers: the output is the full grid of label pairs, so a fill is part of the contract
              /\ (two => AggTable[r].userFill.some)
              /\ cfg' = [row |-> r, two |-> two, engine |-> en]
         /\ phase' = "callA"
         /\ UNCHANGED <<vals, labs, labs2, cuts, fact, plan, byCode, result>>
CallB == /\ phase = "callA"
         /\ \E m \in {"none", "map-reduce", "cohorts", "blockwise"}, ri \in Reindexes, bd \in ByDasks, ad \in ArrDasks :
              \* explicit blockwise with chunked labels is known findings F02/F06 (escapes with internal errors): left out
              /\ ~(bd /\ m = "blockwise")
              \* two groupers: numpy labels only
              /\ (cfg.two => ~bd)
              \* in-memory array: in-memory labels, and the strategy arguments play no role (kept at their defaults)
              /\ (~ad => ~bd /\ m = "none" /\ ri = "none")
              /\ cfg' = [method |-> m, reindex |-> ri, byDask |-> bd, arrDask |-> ad] @@ cfg
         /\ phase' = "callB"
         /\ UNCHANGED <<vals, labs, labs2, cuts, fact, plan, byCode, result>>
CallC == /\ phase = "callB"
         /\ \E e \in BOOLEAN, s \in BOOLEAN : cfg' = [hasExpected |-> e, sort |-> s] @@ cfg
         /\ phase' = "called"
         /\ UNCHANGED <<vals, labs, labs2, cuts, fact, plan, byCode, result>>
Call == CallA \/ CallB \/ CallC

agg == AggTable[cfg.row]

\* the part of the abstract configuration that is known before factorization
EarlyCfg ==
  [fclass |-> IF agg.rtype = "argreduce" THEN "arg" ELSE IF agg.name \in {"nanfirst", "nanlast"} THEN "nanfl" ELSE "plain",
   engine |-> cfg.engine, method |-> cfg.method, reindex |-> cfg.reindex, arrDask |-> cfg.arrDask, byDask |-> cfg.byDask,
   expected |-> cfg.hasExpected, dtypeArg |-> FALSE, floatData |-> TRUE, allAxes |-> TRUE, byNdim |-> 1,
   pref |-> "map-reduce", hasCohorts |-> FALSE, hasCohortsM |-> FALSE, oneBlock |-> FALSE]

\* ---------------------------------------------------------------- Factorize
FactorizeStep ==
  /\ phase = "called"
  \* chunked labels without requested labels: the groups are discovered at compute time, block by block, and the
  \* combine re-groups them in ascending order whatever sort= says
  /\ LET f1 == IF cfg.hasExpected THEN FactorizeExpected(labs, Req, cfg.sort) ELSE FactorizeFound(labs, cfg.sort \/ cfg.byDask)
         f2 == IF cfg.hasExpected THEN FactorizeExpected(labs2, Req2, cfg.sort) ELSE FactorizeFound(labs2, cfg.sort)
         n2 == Len(f2.groups)
         \* named deviation: with several groupers an EMPTY label grid (one grouper without any kept label) is refused
         \* by np.ravel_multi_index ("cannot unravel if shape has zero entries"), eager and chunked alike, whereas a single
         \* grouper without any label returns an empty result
         emptyGrid == cfg.two /\ (Len(f1.groups) = 0 \/ n2 = 0)
     IN
     /\ phase' = IF emptyGrid THEN "refused" ELSE "factorized"
     \* (the engine / method / reindex refusals are decided before the labels are looked at)
     /\ plan' = IF emptyGrid THEN P!Refuse(IF P!EarlyRefusal(EarlyCfg) # "none" THEN P!EarlyRefusal(EarlyCfg) ELSE "ValueError") ELSE plan
     /\ fact' = IF ~cfg.two \/ emptyGrid THEN f1
                ELSE \* _factorize_multiple + _ravel_factorized: row-major code of the pair, -1 when either label is dropped;
                     \* output slots = the full grid (group token of a pair = l1 * NLabels2 + l2)
                     [groups |-> [k \in 1..(Len(f1.groups) * n2) |-> f1.groups[(k - 1) \div n2 + 1] * NLabels2 + f2.groups[((k - 1) % n2) + 1]],
                      codes |-> [i \in 1..Len(labs) |-> RavelFactorized(<<f1.codes[i], f2.codes[i]>>, <<Len(f1.groups), n2>>)]]
  /\ UNCHANGED <<vals, labs, labs2, cuts, cfg, byCode, result>>

\* the labels as ONE sequence of tokens (pairs raveled), for the reference
LabsR == IF ~cfg.two THEN labs ELSE [i \in 1..Len(labs) |-> IF labs[i] < 0 \/ labs2[i] < 0 THEN -1 ELSE labs[i] * NLabels2 + labs2[i]]

NG == Len(fact.groups)
\* the caller's chunks ...
Ends0 == SelectSeq(Indices(vals), LAMBDA i : cuts[i] \/ i = Len(vals))
Sizes0 == [b \in 1..Len(Ends0) |-> Ends0[b] - (IF b = 1 THEN 0 ELSE Ends0[b - 1])]
\* ... are re-cut by rechunk_for_blockwise when method="blockwise" is requested explicitly (Rechunk.tla; the code of
\* the missing label is one more label to the heuristic)
Sizes == IF cfg.method = "blockwise" THEN R!OptimalChunks(Sizes0, fact.codes) ELSE Sizes0
Ends == R!CumSum(Sizes)
NB == Len(Ends)
BStart(b) == IF b = 1 THEN 1 ELSE Ends[b - 1] + 1
BV(b) == SubSeq(vals, BStart(b), Ends[b])
BC(b) == SubSeq(fact.codes, BStart(b), Ends[b])
Incidence == [b \in 1..NB |-> {BC(b)[i] : i \in 1..Len(BC(b))} \ {-1}]
Single == \A b \in 1..NB : Ends[b] - BStart(b) = 0
Confined == \A g \in 0..(NG - 1) : Cardinality({b \in 1..NB : g \in Incidence[b]}) <= 1

\* ---------------------------------------------------------------- Plan
Planner == C!FindGroupCohorts(Incidence, NG, cfg.method = "cohorts", Single)
AbstractCfg ==
  [fclass |-> IF agg.rtype = "argreduce" THEN "arg" ELSE IF agg.name \in {"nanfirst", "nanlast"} THEN "nanfl" ELSE "plain",
   engine |-> cfg.engine, method |-> cfg.method, reindex |-> cfg.reindex, arrDask |-> cfg.arrDask, byDask |-> cfg.byDask,
   expected |-> cfg.hasExpected, dtypeArg |-> FALSE, floatData |-> TRUE, allAxes |-> TRUE, byNdim |-> 1,
   pref |-> Planner.method, hasCohorts |-> Planner.cohorts # {}, hasCohortsM |-> Planner.cohorts # {}, oneBlock |-> Len(Ends0) = 1]   \* judged before the rechunk

PlanStep ==
  /\ phase = "factorized"
  /\ plan' = P!Outcome(AbstractCfg)
  /\ phase' = IF plan'.kind = "ok" THEN "planned" ELSE "refused"
  /\ UNCHANGED <<vals, labs, labs2, cuts, cfg, fact, byCode, result>>

\* ---------------------------------------------------------------- Execute
Codes == [i \in 1..NG |-> i - 1]
Simple == agg.rtype # "argreduce"
\* map-reduce re-groups (instead of stacking) also when the labels are only known at compute time
Unknown == cfg.byDask /\ ~cfg.hasExpected
SimpleMR == Simple /\ ~Unknown

RECURSIVE TreeReduce(_, _, _)
TreeReduce(irs, simple, rb) ==
  IF Len(irs) <= SplitEvery THEN irs
  ELSE TreeReduce([j \in 1..((Len(irs) + SplitEvery - 1) \div SplitEvery) |->
                     Combine(agg, SubSeq(irs, (j - 1) * SplitEvery + 1, IF j * SplitEvery < Len(irs) THEN j * SplitEvery ELSE Len(irs)), simple, rb, FALSE)],
                  simple, rb)

FillOrUnspec == IF agg.userFill.some THEN agg.userFill.v ELSE Unspec
At(res, g) == LET j == IndexOf(res.groups, g) IN IF j = 0 THEN FillOrUnspec ELSE res.result[j]

MapReduceByCode ==
  LET rb == plan.rb /\ SimpleMR
      irs == [b \in 1..NB |-> ChunkSem(agg, BV(b), BC(b), BStart(b) - 1, [reindex |-> rb, expected |-> Codes, dropMissing |-> rb, nanKeepsNaN |-> FALSE])]
      res == AggregateSem(agg, TreeReduce(irs, SimpleMR, rb), [simple |-> SimpleMR, reindexBlockwise |-> rb, finalReindex |-> ~rb /\ ~Unknown, expected |-> Codes, nanKeepsNaN |-> FALSE])
  IN [k \in 1..NG |-> At(res, k - 1)]

SetToSeq(S) == LET RECURSIVE F(_)
                   F(T) == IF T = {} THEN <<>> ELSE LET m == CHOOSE x \in T : \A y \in T : x <= y IN <<m>> \o F(T \ {m})
               IN F(S)

CohortsByCode ==
  [k \in 1..NG |->
     LET g == k - 1
         mine == {p \in Planner.cohorts : g \in p.labels}
     IN IF mine = {} THEN FillOrUnspec
        ELSE LET p == CHOOSE q \in mine : TRUE
                 blocks == SetToSeq(p.chunks)
                 labsq == SetToSeq(p.labels)
                 irs == [n \in 1..Len(blocks) |->
                           LET raw == ChunkSem(agg, BV(blocks[n]), BC(blocks[n]), BStart(blocks[n]) - 1,
                                               [reindex |-> FALSE, expected |-> <<>>, dropMissing |-> FALSE, nanKeepsNaN |-> FALSE])
                           IN IF Simple THEN ReindexIR(agg, raw, labsq) ELSE raw]
                 res == AggregateSem(agg, TreeReduce(irs, Simple, Simple),
                                     [simple |-> Simple, reindexBlockwise |-> Simple, finalReindex |-> ~Simple, expected |-> labsq, nanKeepsNaN |-> FALSE])
             IN At(res, g)]

\* blockwise: every block reduces its own groups completely; outputs are concatenated, the code of the
\* missing label (possibly once per block) is removed, absent codes are filled by the final reindex
BlockwiseByCode ==
  [k \in 1..NG |->
     LET g == k - 1
         home == {b \in 1..NB : g \in Incidence[b]}
     IN IF home = {} THEN FillOrUnspec
        ELSE LET b == CHOOSE x \in home : TRUE
                 res == BlockwiseSem(agg, BV(b), BC(b), [sort |-> cfg.sort, start |-> BStart(b) - 1])
             IN At(res, g)]

\* Named deviation ("Filling is required"): a requested label that never occurs needs a fill.  map-reduce
\* fills such slots with the reduction's own default (absent for arg reductions); cohorts and blockwise
\* leave them to the final reindex of groupby_reduce, which only knows the USER's fill_value and refuses
\* (ValueError) when there is none.  Outside the documented contract (a fill_value is to be supplied
\* whenever a requested label may be absent), but part of what the code does.
Covered == IF plan.method = "cohorts" /\ Simple THEN C!LabelsIn(Planner.cohorts)      \* a single block's cohort lists every label
           ELSE UNION {Incidence[b] : b \in 1..NB}
NeedsFill == \E g \in 0..(NG - 1) : g \notin Covered
FillRefusal == /\ ~agg.userFill.some /\ NeedsFill
               /\ (plan.method \in {"cohorts", "blockwise"} \/ ~(plan.rb /\ SimpleMR))

\* the eager path: _reduce_blockwise on the whole array, reindexed to the output slots
EagerByCode ==
  LET res == BlockwiseSem(agg, vals, fact.codes, [sort |-> cfg.sort, start |-> 0]) IN [k \in 1..NG |-> At(res, k - 1)]

\* _choose_engine on the concrete labels (numpy labels: _issorted on the factorized codes)
CodesSorted == \A i \in 1..(Len(fact.codes) - 1) : fact.codes[i] <= fact.codes[i + 1]
EngineChosen == P!ChooseEngine(AbstractCfg, agg.nanskip, CodesSorted, FALSE)

Execute ==
  /\ phase = "planned"
  /\ IF plan.method = "eager"
     THEN /\ byCode' = EagerByCode /\ phase' = "executed" /\ UNCHANGED plan
     ELSE IF FillRefusal
     THEN /\ plan' = P!Refuse("ValueError") /\ phase' = "refused" /\ UNCHANGED byCode
     ELSE /\ byCode' = CASE plan.method = "map-reduce" -> MapReduceByCode
                         [] plan.method = "cohorts"    -> CohortsByCode
                         [] plan.method = "blockwise"  -> BlockwiseByCode
          /\ phase' = "executed" /\ UNCHANGED plan
  /\ UNCHANGED <<vals, labs, labs2, cuts, cfg, fact, result>>

\* ---------------------------------------------------------------- Finish
Finish ==
  /\ phase = "executed"
  /\ result' = byCode          \* slot k of the output is code k-1: the codes were laid out in output order by Factorize
  /\ phase' = "done"
  /\ UNCHANGED <<vals, labs, labs2, cuts, cfg, fact, plan, byCode>>

Next == Grow \/ Call \/ FactorizeStep \/ PlanStep \/ Execute \/ Finish
Spec == Init /\ [][Next]_vars

\* ---------------------------------------------------------------- properties
\* explicit blockwise is only in scope on inputs meeting its precondition
InScope == ~(cfg.method = "blockwise" /\ ~Confined)

RefMinCount == IF agg.userFill.some /\ agg.minCount > 0 THEN agg.minCount ELSE -1
Inv_Result ==
  (phase = "done" /\ InScope) =>
     /\ LET w1 == RefGroups(labs, [some |-> cfg.hasExpected, v |-> Req], cfg.sort)
            w2 == RefGroups(labs2, [some |-> cfg.hasExpected, v |-> Req2], cfg.sort)
            want == IF ~cfg.two THEN w1
                    ELSE [k \in 1..(Len(w1) * Len(w2)) |-> w1[(k - 1) \div Len(w2) + 1] * NLabels2 + w2[((k - 1) % Len(w2)) + 1]] IN
        IF Unknown /\ ~cfg.sort       \* order left open by the property for discovered groups with sort=False
        THEN Len(want) = Len(fact.groups) /\ {want[i] : i \in 1..Len(want)} = {fact.groups[i] : i \in 1..Len(want)}
        ELSE fact.groups = want
     /\ \A k \in 1..NG :
          LET exp == RefSlot(agg.name, vals, LabsR, fact.groups[k], agg.userFill, RefMinCount, [ddof |-> agg.ddof, q |-> <<1, 2>>])
          IN Matches(exp, result[k]) \/ IsUnspec(result[k])
Inv_CleanRefusal == phase = "refused" => plan.kind \in P!CleanKinds
\* the automatic strategy is always one whose precondition holds
Inv_AutoPlanSound == (phase \in {"planned", "executed", "done"} /\ cfg.method = "none" /\ plan.method = "blockwise") => Confined

\* spec -> code: every finished behaviour is printed and replayed into the real groupby_reduce (harness/composecase.py)
Emit == (phase \in {"done", "refused"} /\ InScope) =>
          PrintT(<<"BEH", vals, labs, labs2, cuts, cfg, fact.groups, plan, result, Planner.method, Sizes, fact.codes, EngineChosen, Cardinality(Planner.cohorts)>>)

\* vacuity witnesses (each must be VIOLATED by some behaviour)
W_Cohorts == ~(phase = "done" /\ plan.method = "cohorts")
W_Blockwise == ~(phase = "done" /\ plan.method = "blockwise" /\ NB > 1)
W_Refused == phase # "refused"
W_FillRefusal == ~(phase = "planned" /\ FillRefusal)
=============================================================================
