-------------------------------- MODULE MC_Dtypes -------------------------------
(* The full dtype table: structural sanity of RefDtype (idempotent widening,      *)
(* count/arg never floating without a NaN fill, floating family never integral).  *)
EXTENDS Dtypes, TLC
VARIABLE c
All == {"b1", "i1", "i2", "i4", "i8", "u1", "u2", "u4", "u8", "f4", "f8", "M8", "m8"}
Funcs == SumFamily \cup FloatFamily \cup KeepFamily \cup IntFamily \cup BoolFamily
Cells == [func : Funcs, d : All, user : {"none", "f4", "f8", "i8"}, fill : {"none", "nan", "int"}]
Init == c \in Cells
Next == UNCHANGED c
Spec == Init /\ [][Next]_c
R == RefDtype(c.func, c.d, c.user, c.fill)
WidenIdempotent == Widen(R, c.fill) = R
HoldsNaN == c.fill = "nan" => Kind(R) \in {"f", "M", "m"}
IntFamilyIntegral == (c.func \in IntFamily /\ c.user = "none" /\ c.fill # "nan") => R = "i8"
FloatFamilyFloating == (c.func \in FloatFamily /\ c.user = "none") => Kind(R) \in {"f", "M", "m"}
=============================================================================
