------------------------------- MODULE MC_Tree -------------------------------
(* All (nblocks, split_every): build the tree level by level (one action per  *)
(* partial_reduce call); ExtraLevel is the named deviation for math.log       *)
(* rounding up (an extra level whose nodes each have a single child).         *)
EXTENDS Tree, TLC
CONSTANTS MaxN, MaxK

VARIABLES n, k, nodes, level, extra
vars == <<n, k, nodes, level, extra>>

Init == /\ n \in 1..MaxN /\ k \in 2..MaxK
        /\ nodes = Leaves(n) /\ level = 0 /\ extra \in BOOLEAN

Target == Depth(n, k) + (IF extra THEN 1 ELSE 0)

Reduce == /\ level < Target
          /\ nodes' = ReduceLevel(nodes, k)
          /\ level' = level + 1
          /\ UNCHANGED <<n, k, extra>>
Next == Reduce
Spec == Init /\ [][Next]_vars

\* every leaf exactly once, in positional order, at every level (C03, C06, C09)
TreeWellFormed == AllLeavesInOrder(nodes, n)
\* the aggregate level is a single node, also with the extra level
RootIsSingle == (level = Target) => Len(nodes) = 1
\* the state machine agrees with the closed form used by the trace spec
AgreesWithClosedForm == (level > 0 /\ level <= Depth(n, k)) => nodes = TreeLevels(n, k)[level]
=============================================================================
