------------------------------- MODULE Lifecycle ------------------------------
(***************************************************************************)
(* Life cycle of one API call with chunked inputs (C12).                    *)
(*   idle --Call--> constructing --Return--> returned --Compute--> computing *)
(* While constructing, flox may only look at metadata (shapes, chunks,       *)
(* dtypes) and at IN-MEMORY label arrays; chunks of the value array or of    *)
(* chunked labels are evaluated only in phase computing.  The planner is     *)
(* consulted only for in-memory labels; chunked labels force map-reduce.     *)
(***************************************************************************)
EXTENDS Integers, Sequences, FiniteSets

CONSTANTS NChunks
VARIABLES phase, evaluated, byDask, plannerConsulted, lazy
vars == <<phase, evaluated, byDask, plannerConsulted, lazy>>

Init == phase = "idle" /\ evaluated = {} /\ byDask \in BOOLEAN /\ plannerConsulted = FALSE /\ lazy = FALSE

Call == phase = "idle" /\ phase' = "constructing" /\ UNCHANGED <<evaluated, byDask, plannerConsulted, lazy>>
\* planning step: allowed to read labels only when they are in memory
Plan == /\ phase = "constructing" /\ ~plannerConsulted /\ ~byDask
        /\ plannerConsulted' = TRUE /\ UNCHANGED <<phase, evaluated, byDask, lazy>>
Return == /\ phase = "constructing" /\ phase' = "returned" /\ lazy' = TRUE
          /\ UNCHANGED <<evaluated, byDask, plannerConsulted>>
Compute == phase = "returned" /\ phase' = "computing" /\ UNCHANGED <<evaluated, byDask, plannerConsulted, lazy>>
EvalChunk(c) == /\ phase = "computing" /\ c \notin evaluated
                /\ evaluated' = evaluated \cup {c} /\ UNCHANGED <<phase, byDask, plannerConsulted, lazy>>
Next == Call \/ Plan \/ Return \/ Compute \/ \E c \in 1..NChunks : EvalChunk(c)
Spec == Init /\ [][Next]_vars

\* C12: nothing is evaluated before the call has returned, and what is returned is lazy
NoEagerEvaluation == phase \in {"idle", "constructing", "returned"} => evaluated = {}
ReturnsLazy == phase \in {"returned", "computing"} => lazy
NoPeekingAtChunkedLabels == byDask => ~plannerConsulted
=============================================================================
