------------------------------- MODULE TraceCalls ------------------------------
(* Trace specification for groupby_reduce calls RECORDED FROM THE REPOSITORY'S OWN  *)
(* TEST-SUITE (FLOX_VERIF hook: one "call" event per outermost call with its         *)
(* configuration scalars and outcome, one "plan" event with the resolved strategy,   *)
(* engine and reindex mode).  Every recorded call must be a behaviour of Plan.tla:   *)
(*   kind     Outcome(cfg).kind = what happened (ok / the refusal class)             *)
(*   plan     the strategy recorded by the hook = Outcome(cfg).method                *)
(*   rb       the reindex mode recorded = Outcome(cfg).rb                            *)
(*   engine   the engine recorded = ChooseEngine(cfg, ...)                           *)
(* What the hook does not log is left to TLC: the planner's preference for calls     *)
(* refused before planning, and the data-dependent inputs of _choose_engine (label   *)
(* sortedness) are existentially quantified.                                         *)
(* All four clauses are model-level (DRIFT); the calls come from a passing suite.    *)
EXTENDS Plan, Json, IOUtils, TLC
VARIABLE l
TraceLog == ndJsonDeserialize(IOEnv.TRACE_FILE)

Prefs == {"blockwise", "cohorts", "map-reduce"}
\* the configurations compatible with what was logged
Cands(r) ==
  IF r.hasplan THEN {r.cfg}
  ELSE {[[[r.cfg EXCEPT !.pref = p] EXCEPT !.hasCohorts = h] EXCEPT !.hasCohortsM = hm] : p \in Prefs, h \in BOOLEAN, hm \in BOOLEAN}

KindOk(r, c) == Outcome(c).kind = r.kind
PlanOk(r, c) == r.kind # "ok" \/ ~r.hasplan \/ Outcome(c).method = r.plan
RbOk(r, c) == r.kind # "ok" \/ ~r.hasplan \/ r.plan = "eager" \/ Outcome(c).rb = r.rb
EngineOk(r, c) == r.kind # "ok" \/ ~r.hasplan \/ \E sortedLabels \in BOOLEAN : ChooseEngine(c, r.nanskip, sortedLabels, r.boolfamily) = r.engine

Bad(r) ==
  IF \E c \in Cands(r) : KindOk(r, c) /\ PlanOk(r, c) /\ RbOk(r, c) /\ EngineOk(r, c) THEN {}
  ELSE (IF \E c \in Cands(r) : KindOk(r, c) THEN {} ELSE {"kind"})
       \cup (IF \E c \in Cands(r) : PlanOk(r, c) THEN {} ELSE {"plan"})
       \cup (IF \E c \in Cands(r) : RbOk(r, c) THEN {} ELSE {"rb"})
       \cup (IF \E c \in Cands(r) : EngineOk(r, c) THEN {} ELSE {"engine"})
       \cup {"joint"}

Init == l = 1
Next == /\ l <= Len(TraceLog)
        /\ LET r == TraceLog[l] IN IF Bad(r) = {} THEN TRUE
           ELSE PrintT(<<"FAIL", r.id, Bad(r), LET o == Outcome(CHOOSE c \in Cands(r) : TRUE) IN <<o.kind, o.method, o.rb>>>>)
        /\ l' = l + 1
Spec == Init /\ [][Next]_l
TraceAccepted == TLCGet("stats").diameter = Len(TraceLog) + 1
=============================================================================
