------------------------------- MODULE FloxScan -------------------------------
(***************************************************************************)
(* The composition for grouped scans: one flox.groupby_scan call as a state *)
(* machine, structured like the code (flox/core.py: groupby_scan,            *)
(* dask_groupby_scan, chunk_scan, grouped_reduce; aggregations.py:           *)
(* scan_binary_op, Scan.preprocess / finalize).                              *)
(*                                                                          *)
(*  input --Grow*--> input --Call--> called --Validate-->                    *)
(*      refused(NotImplementedError | ValueError)                            *)
(*    | done      (pass-through: ffill/bfill of data that cannot hold NaN)   *)
(*    | done      (single-member shortcut)                                   *)
(*    | ready     (labels factorized, input reversed for bfill)              *)
(*  ready --EagerScan--> scanned                       (array in memory)     *)
(*  ready --ScanBlock(b) | ReduceBlock(b) | CombineSeg(i,k,j) | ApplyBlock(b)*)
(*        in ANY order --> scanned                     (chunked array)       *)
(*  scanned --Finalize--> done                         (reverse back)        *)
(*                                                                          *)
(* The chunked path is the task graph of dask's cumreduction: one in-block   *)
(* scan and one per-block state per block, states of ADJACENT block ranges   *)
(* combined by scan_binary_op in any bracketing (Blelloch's up/down sweep is *)
(* one of them; the property quantifies over all prefix-tree shapes), and    *)
(* the final step applying the state of blocks 1..b-1 to block b.  Tasks     *)
(* run in any order their dependencies allow: every interleaving is a        *)
(* behaviour.                                                                *)
(*                                                                          *)
(* Invariants: a finished call returns, position by position, the NumPy     *)
(* scan of that position's group (Ref!RefScan) whatever the chunking, tree   *)
(* shape and task order (C10, C03); combining a range of blocks gives the    *)
(* same state whatever the split point (tree independence); no value leaks   *)
(* from one group into another; refusals are the clean classes (C19); the    *)
(* result is lazy exactly when the array is chunked (C12).                   *)
(***************************************************************************)
EXTENDS Scan, TLC

CONSTANTS MaxLen, MinLen, NLabels, Wide,
          Funcs,       \* subset of {"nancumsum", "ffill", "bfill"}
          Dtypes,      \* subset of {"f8", "i8", "b1"}
          ArrDasks,    \* subset of BOOLEAN: the array is chunked
          ByDasks,     \* subset of BOOLEAN: the labels are a chunked array
          ArgSets      \* subset of {"none", "engine", "method", "expected", "engine+method"}: unsupported keyword arguments given

AlphaOf(dt) == CASE dt = "f8" -> (IF Wide THEN {<<-2,1>>, <<1,1>>, <<0,0>>, <<1,0>>, <<-1,0>>} ELSE {<<-2,1>>, <<1,1>>, <<0,0>>})
                 [] dt = "i8" -> {<<-1,1>>, <<0,1>>, <<3,1>>}
                 [] dt = "b1" -> {<<0,1>>, <<1,1>>}

VARIABLES vals, labs, cuts, cfg, phase, plan, bscan, seg, outb, out
vars == <<vals, labs, cuts, cfg, phase, plan, bscan, seg, outb, out>>

NoFun == [x \in {} |-> 0]

Init == /\ vals = <<>> /\ labs = <<>> /\ cuts = <<>> /\ phase = "input"
        /\ cfg = [func |-> "-", dtype |-> "-"] /\ plan = [kind |-> "-"]
        /\ bscan = NoFun /\ seg = NoFun /\ outb = NoFun /\ out = <<>>

\* the data type is fixed before the first value is drawn
PickDtype == /\ phase = "input" /\ cfg.dtype = "-"
             /\ \E dt \in Dtypes : cfg' = [cfg EXCEPT !.dtype = dt]
             /\ UNCHANGED <<vals, labs, cuts, phase, plan, bscan, seg, outb, out>>

Grow == /\ phase = "input" /\ cfg.dtype # "-" /\ Len(vals) < MaxLen
        /\ \E v \in AlphaOf(cfg.dtype), l \in (0..(NLabels - 1)) \cup {-1}, cut \in BOOLEAN :
             vals' = Append(vals, v) /\ labs' = Append(labs, l) /\ cuts' = Append(cuts, cut)
        /\ UNCHANGED <<cfg, phase, plan, bscan, seg, outb, out>>

Call == /\ phase = "input" /\ cfg.dtype # "-" /\ Len(vals) >= MinLen /\ vals # <<>>
        /\ \E f \in Funcs, ad \in ArrDasks, bd \in ByDasks, a \in ArgSets :
             cfg' = [func |-> f, dtype |-> cfg.dtype, arrDask |-> ad, byDask |-> bd, args |-> a]
        /\ phase' = "called"
        /\ UNCHANGED <<vals, labs, cuts, plan, bscan, seg, outb, out>>

\* ---------------------------------------------------------------- Validate
Missing == \E i \in 1..Len(labs) : labs[i] < 0
Distinct == \A i, j \in 1..Len(labs) : i # j => labs[i] # labs[j]
\* `by_.shape[-1] == 1 or by_.shape == grp_shape`: every group has one member
SingleMember == Len(labs) = 1 \/ (~Missing /\ Distinct)
PassThrough == cfg.func \in {"ffill", "bfill"} /\ cfg.dtype # "f8"

Refuse(k) == [kind |-> k, path |-> "-"]
Ok(p) == [kind |-> "ok", path |-> p]

\* the order of the checks is the order of the code
Verdict ==
  IF cfg.args \in {"engine", "engine+method"} THEN Refuse("NotImplementedError")
  ELSE IF cfg.args = "method" THEN Refuse("NotImplementedError")
  ELSE IF PassThrough THEN Ok("passthrough")                  \* "nothing to do, no NaNs!" -- judged BEFORE expected_groups / dask labels
  ELSE IF cfg.args = "expected" THEN Refuse("NotImplementedError")
  ELSE IF cfg.byDask THEN Refuse("NotImplementedError")        \* labels must be factorized early
  ELSE IF SingleMember THEN Ok("shortcut")
  ELSE IF cfg.func = "nancumsum" /\ Missing THEN Refuse("ValueError")   \* "negative indices not supported"
  ELSE Ok(IF cfg.arrDask THEN "chunked" ELSE "eager")

Validate ==
  /\ phase = "called"
  /\ plan' = Verdict
  /\ phase' = CASE Verdict.kind # "ok" -> "refused"
                [] Verdict.path \in {"passthrough", "shortcut"} -> "done"
                [] OTHER -> "ready"
  /\ out' = CASE Verdict.kind # "ok" -> <<>>
              [] Verdict.path = "passthrough" -> vals
              \* single member: the value itself; a NaN member of nancumsum still counts as zero
              [] Verdict.path = "shortcut" -> [i \in 1..Len(vals) |-> IF cfg.func = "nancumsum" /\ IsNaN(vals[i]) THEN Zero ELSE vals[i]]
              [] OTHER -> <<>>
  /\ UNCHANGED <<vals, labs, cuts, cfg, bscan, seg, outb>>

\* ---------------------------------------------------------------- blocks (of the reversed problem for bfill)
Rev == cfg.func = "bfill"
In(s) == IF Rev THEN Reverse(s) ELSE s
V == In(vals)
C == In(labs)
N == Len(vals)
Ends == IF ~cfg.arrDask THEN <<N>>
        ELSE IF Rev THEN SelectSeq(Indices(vals), LAMBDA i : i = N \/ (i < N /\ cuts[N - i]))
        ELSE SelectSeq(Indices(vals), LAMBDA i : cuts[i] \/ i = N)
NB == Len(Ends)
BStart(b) == IF b = 1 THEN 1 ELSE Ends[b - 1] + 1
BV(b) == SubSeq(V, BStart(b), Ends[b])
BC(b) == SubSeq(C, BStart(b), Ends[b])

\* ---------------------------------------------------------------- eager
EagerScan ==
  /\ phase = "ready" /\ plan.path = "eager"
  /\ outb' = (1 :> BlockScan(cfg.func, V, C))
  /\ phase' = "scanned"
  /\ UNCHANGED <<vals, labs, cuts, cfg, plan, bscan, seg, out>>

\* ---------------------------------------------------------------- chunked: the tasks of the cumreduction graph
Chunked == phase = "ready" /\ plan.path = "chunked"

ScanBlock(b) ==                      \* chunk_scan
  /\ Chunked /\ b \notin DOMAIN bscan
  /\ bscan' = bscan @@ (b :> BlockScan(cfg.func, BV(b), BC(b)))
  /\ UNCHANGED <<vals, labs, cuts, cfg, phase, plan, seg, outb, out>>

ReduceBlock(b) ==                    \* grouped_reduce (preop)
  /\ Chunked /\ <<b, b>> \notin DOMAIN seg
  /\ seg' = seg @@ (<<b, b>> :> BlockState(cfg.func, BV(b), BC(b)))
  /\ UNCHANGED <<vals, labs, cuts, cfg, phase, plan, bscan, outb, out>>

CombineSeg(i, k, j) ==               \* scan_binary_op on two states: blocks i..k and k+1..j
  /\ Chunked /\ <<i, k>> \in DOMAIN seg /\ <<k + 1, j>> \in DOMAIN seg /\ <<i, j>> \notin DOMAIN seg
  /\ seg' = seg @@ (<<i, j>> :> BinopState(cfg.func, seg[<<i, k>>], seg[<<k + 1, j>>]))
  /\ UNCHANGED <<vals, labs, cuts, cfg, phase, plan, bscan, outb, out>>

ApplyBlock(b) ==                     \* scan_binary_op on (state of blocks 1..b-1, the block's own scan)
  /\ Chunked /\ b \in DOMAIN bscan /\ b \notin DOMAIN outb
  /\ (b = 1 \/ <<1, b - 1>> \in DOMAIN seg)
  /\ outb' = outb @@ (b :> IF b = 1 THEN BinopResult(cfg.func, EmptyState, bscan[b], BC(b))
                           ELSE BinopResult(cfg.func, seg[<<1, b - 1>>], bscan[b], BC(b)))
  /\ UNCHANGED <<vals, labs, cuts, cfg, phase, plan, bscan, seg, out>>

Gather ==
  /\ Chunked /\ DOMAIN outb = 1..NB
  /\ phase' = "scanned"
  /\ UNCHANGED <<vals, labs, cuts, cfg, plan, bscan, seg, outb, out>>

\* ---------------------------------------------------------------- Finalize
RECURSIVE Cat(_, _)
Cat(f, n) == IF n = 0 THEN <<>> ELSE Cat(f, n - 1) \o f[n]

Finalize ==
  /\ phase = "scanned"
  /\ LET raw == Cat(outb, IF plan.path = "eager" THEN 1 ELSE NB)
         back == IF Rev THEN Reverse(raw) ELSE raw IN
     out' = back
  /\ phase' = "done"
  /\ UNCHANGED <<vals, labs, cuts, cfg, plan, bscan, seg, outb>>

Next == \/ PickDtype \/ Grow \/ Call \/ Validate \/ EagerScan \/ Gather \/ Finalize
        \/ \E b \in 1..MaxLen : (Chunked /\ b <= NB /\ (ScanBlock(b) \/ ReduceBlock(b) \/ ApplyBlock(b)))
        \/ \E i, k, j \in 1..MaxLen : (Chunked /\ i <= k /\ k < j /\ j <= NB /\ CombineSeg(i, k, j))
Spec == Init /\ [][Next]_vars

\* ---------------------------------------------------------------- properties
\* C10: every position of a group holds the sequential scan of the group up to that position; shape kept
\* Named deviation (known finding F12): nancumsum of data holding +-inf.  The carried state is the nan-LAST of (left state,
\* adjusted block) -- AlignedArrays.last() -- so a running sum that legitimately became NaN (inf + -inf) is dropped and later
\* blocks continue from the older state; Scan.tla transcribes that, and Inv_ScanResultAll is VIOLATED with the wide alphabet
\* (checked as a witness).  (The in-block kernel of numpy_groupies has a second, independent loss on such data.)
HasInf == \E i \in 1..Len(vals) : IsInf(vals[i])
InScope == ~(cfg.func = "nancumsum" /\ HasInf)
Inv_ScanResultAll ==
  phase = "done" =>
     /\ Len(out) = Len(vals)
     /\ \A i \in 1..Len(vals) : Matches(RefScan(cfg.func, vals, labs)[i], out[i])
Inv_ScanResult == InScope => Inv_ScanResultAll
\* C03 for scans: the state of a range of blocks does not depend on where the range was split
Inv_TreeIndependent ==
  \A r \in DOMAIN seg : \A k \in r[1]..(r[2] - 1) :
     (<<r[1], k>> \in DOMAIN seg /\ <<k + 1, r[2]>> \in DOMAIN seg)
        => BinopState(cfg.func, seg[<<r[1], k>>], seg[<<k + 1, r[2]>>]) = seg[r]
\* values never propagate from one group into another (fills only)
Inv_NoLeak ==
  (phase = "done" /\ cfg.func \in {"ffill", "bfill"}) =>
     \A i \in 1..Len(out) : labs[i] >= 0 =>
        (IsNaN(out[i]) \/ \E j \in 1..Len(vals) : labs[j] = labs[i] /\ vals[j] = out[i]
                                                   /\ (IF cfg.func = "ffill" THEN j <= i ELSE j >= i))
\* C19: refusals are the clean classes, and the ValueError is the documented one
Inv_CleanRefusal ==
  phase = "refused" => /\ plan.kind \in {"NotImplementedError", "ValueError"}
                       /\ (plan.kind = "ValueError" => cfg.func = "nancumsum" /\ Missing)
\* C12: the result is lazy exactly when the array is chunked -- nothing on the way forces a compute
Lazy == cfg.arrDask

Emit == (phase \in {"done", "refused"}) => PrintT(<<"SBEH", vals, labs, cuts, cfg, plan, out, Lazy>>)

\* vacuity witnesses (each must be VIOLATED)
W_Chunked3 == ~(phase = "done" /\ plan.path = "chunked" /\ NB >= 3)
W_Shortcut == ~(phase = "done" /\ plan.path = "shortcut" /\ Len(vals) > 1)
W_PassThrough == ~(phase = "done" /\ plan.path = "passthrough")
W_ValueError == ~(phase = "refused" /\ plan.kind = "ValueError")
W_Split == ~(\E r \in DOMAIN seg : r[2] - r[1] >= 2)
=============================================================================
