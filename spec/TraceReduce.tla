----------------------------- MODULE TraceReduce ----------------------------
(***************************************************************************)
(* Trace specification for grouped reductions observed at the public API.  *)
(* One ndjson line = one completed call (the linearisation point of a      *)
(* sequential library call is its return) projected to the abstract        *)
(* domain by harness/project.py:                                           *)
(*   id, func, ddof, q, vals, codes, req, sort, fill, min_count            *)
(*   groups  (labels returned)      out (values returned, one per slot)    *)
(*   gmode   "exact": labels must equal the sort contract; "perm": any     *)
(*           order (chunked input, sort=False, no expected_groups); "none"  *)
(* Every line is checked against Ref!RefGroups / Ref!RefGroupby.  Verdicts *)
(* are total: a failing line is reported (id + failing clauses) and the    *)
(* run continues, so every line of the file is examined.                   *)
(***************************************************************************)
EXTENDS Ref, Json, IOUtils, TLC

VARIABLE l

TraceLog == ndJsonDeserialize(IOEnv.TRACE_FILE)

Kw(r) == [ddof |-> r.ddof, q |-> r.q]

ExpectedGroups(r) == RefGroups(r.codes, r.req, r.sort)

\* the set of clause names that fail on record r
Failed(r) ==
  LET eg == ExpectedGroups(r)
      groupsOk == IF r.gmode = "perm"
                  THEN SeqToSet(r.groups) = SeqToSet(eg) /\ Len(r.groups) = Len(eg)   \* any order, nothing lost or repeated
                  ELSE r.groups = eg
      lenOk == Len(r.out) = Len(r.groups)
      ev == RefGroupby(r.func, r.vals, r.codes, r.groups, r.fill, r.min_count, Kw(r))
      \* std is carried as its square (no square roots in the specification); a slot that receives
      \* the user's fill is compared with the raw (unsquared) value instead
      isStd == r.func \in {"std", "nanstd"}
      slotOk(k) == IF isStd /\ RefIsFill(r.vals, r.codes, r.groups[k], r.min_count)
                   THEN Matches(ev[k], r.raw[k])
                   ELSE Matches(ev[k], r.out[k])
      valuesOk == lenOk /\ \A k \in 1..Len(r.groups) : slotOk(k)
      sortedOk == (r.sort => StrictlyAscending(r.groups)) /\ NoRepeats(r.groups)
  IN  (IF r.gmode # "none" /\ ~groupsOk THEN {"groups"} ELSE {})
      \cup (IF r.gmode # "none" /\ ~sortedOk THEN {"order"} ELSE {})
      \cup (IF ~lenOk THEN {"shape"} ELSE {})
      \cup (IF lenOk /\ ~valuesOk THEN {"values"} ELSE {})

Init == l = 1

Next ==
  /\ l <= Len(TraceLog)
  /\ LET r == TraceLog[l]
         bad == Failed(r)
     IN IF bad = {} THEN TRUE
        ELSE PrintT(<<"FAIL", r.id, bad,
                     RefGroupby(r.func, r.vals, r.codes, r.groups, r.fill, r.min_count, Kw(r))>>)
  /\ l' = l + 1

Spec == Init /\ [][Next]_l

\* every line consumed: one state per line plus the initial state
TraceAccepted == TLCGet("stats").diameter = Len(TraceLog) + 1
=============================================================================
