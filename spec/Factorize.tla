------------------------------ MODULE Factorize ------------------------------
(***************************************************************************)
(* Labels -> integer codes, transcribed from flox/core.py:                  *)
(*   _convert_expected_groups_to_index (optional sort of requested labels)  *)
(*   _factorize_single  (RangeIndex / IntervalIndex / plain Index branches, *)
(*                       and pd.factorize when nothing is requested)        *)
(*   _ravel_factorized  (np.ravel_multi_index(mode="wrap") + repair of -1)  *)
(*   offset_labels      (per-slice offsets for partial-axis reductions)     *)
(* Labels are integer tokens, -1 = missing (NaN/NaT).  Codes: position in   *)
(* the output order, -1 = dropped.                                          *)
(***************************************************************************)
EXTENDS Ref

\* np.argsort(expect): positions of expect in ascending label order (labels are distinct)
ArgSort(e) == SortBy(LAMBDA i, j : e[i] < e[j], Indices(e))

\* np.searchsorted(expect, x, sorter=sorter): number of sorted labels < x  (0-based insertion point, side="left")
SearchSorted(e, sorter, x) == Cardinality({i \in 1..Len(e) : e[sorter[i]] < x})

IsIn(e, x) == \E i \in 1..Len(e) : e[i] = x

\* the plain-Index branch of _factorize_single with expected labels `e` (reindex = TRUE)
FactorizeExpected(by, e, sort) ==
  LET sorter == ArgSort(e)
      groups == IF sort THEN Pick(e, sorter) ELSE e
      code(x) ==
        LET ip == SearchSorted(e, sorter, x)          \* 0-based position in the sorted order
            masked == ~IsIn(e, x) \/ x < 0 \/ ip = Len(e)
        IN IF masked THEN -1
           ELSE IF sort THEN ip ELSE sorter[ip + 1] - 1   \* unsort: back to the position in e
  IN [groups |-> groups, codes |-> [i \in 1..Len(by) |-> code(by[i])]]

\* nothing requested: pd.factorize(flat, sort=sort) — missing labels get -1
FactorizeFound(by, sort) ==
  LET groups == IF sort THEN PresentSorted(by) ELSE PresentInOrder(by)
  IN [groups |-> groups, codes |-> [i \in 1..Len(by) |-> IF by[i] < 0 THEN -1 ELSE IndexOf0(groups, by[i])]]

\* bins: np.digitize made to behave like pandas.cut (values are Values, edges ascending Values)
Digitize(x, edges, right) ==
  \* number of edges e with e < x (right) or e <= x (left): np.digitize for increasing bins
  Cardinality({k \in 1..Len(edges) : IF right THEN Lt(edges[k], x) ELSE Le(edges[k], x)})
FactorizeBins(x, edges, right) ==
  IF Len(edges) < 2 THEN -1
  ELSE IF IsNaN(x) THEN -1
  ELSE LET idx == Digitize(x, edges, right) - 1
           last == edges[Len(edges)]
           within == IF right THEN Le(x, last) ELSE Lt(x, last)
       IN IF ~within \/ idx < 0 THEN -1 ELSE idx

\* several groupers: np.ravel_multi_index(mode="wrap") then the OR-mask restores -1
WrapIdx(c, n) == ((c % n) + n) % n
RavelWrap(cs, shape) ==
  LET RECURSIVE R(_)
      R(i) == IF i = 0 THEN 0 ELSE R(i - 1) * shape[i] + WrapIdx(cs[i], shape[i])
  IN R(Len(cs))
RavelFactorized(cs, shape) == IF \E i \in 1..Len(cs) : cs[i] = -1 THEN -1 ELSE RavelWrap(cs, shape)

\* partial-axis reductions: codes of slice number s (0-based) are shifted by s * ngroups, -1 preserved
OffsetLabel(c, s, ngroups) == IF c = -1 THEN -1 ELSE c + s * ngroups
=============================================================================
