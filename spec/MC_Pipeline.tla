---------------------------- MODULE MC_Pipeline ------------------------------
(***************************************************************************)
(* The map-reduce pipeline as a state machine:                             *)
(*   Grow*  -> BlockStage -> CombineLevel* -> Aggregate                    *)
(* over every input (values x labels), every chunking of the axis, every   *)
(* blueprint of the LIVE registry (gen/AggTable.tla), both combine kinds   *)
(* and reindex modes, and split_every in SplitEverys.  Invariant: the      *)
(* finished result equals the NumPy reference (C02, C04), and every level  *)
(* of the tree carries exactly the labels it should (C09 "counted once").  *)
(***************************************************************************)
EXTENDS Aggs, AggTable, TLC

CONSTANTS MaxLen, NLabels, SplitEverys, DtypeClass, WithMissing, Positional

AlphaF8 == {<<-2,1>>, <<1,1>>, <<0,0>>, <<-1,0>>}
AlphaI8 == {<<-2,1>>, <<0,1>>, <<3,1>>}
AlphaB1 == {<<0,1>>, <<1,1>>}
AlphaTies == {<<1,1>>, <<2,1>>, <<0,0>>}     \* forces ties and NaN on both sides of every boundary (C06)
PositionalNames == {"argmax", "argmin", "nanargmax", "nanargmin", "nanfirst", "nanlast"}
Alphabet == IF Positional THEN AlphaTies ELSE IF DtypeClass = "f8" THEN AlphaF8 ELSE IF DtypeClass = "i8" THEN AlphaI8 ELSE AlphaB1

Rows == {i \in 1..Len(AggTable) : AggTable[i].dtype = DtypeClass /\ (Positional => AggTable[i].name \in PositionalNames)}
Labels == (0..(NLabels - 1)) \cup (IF WithMissing THEN {-1} ELSE {})
Expected == [i \in 1..NLabels |-> i - 1]

Modes(agg) ==
  \* dask_groupby_agg: arg-reductions, and first/last on non-float data, use the grouped combine
  IF agg.rtype = "argreduce" \/ (agg.name \in {"nanfirst", "nanlast"} /\ DtypeClass # "f8")
  THEN {[simple |-> FALSE, rb |-> FALSE]}
  ELSE {[simple |-> TRUE, rb |-> TRUE], [simple |-> TRUE, rb |-> FALSE], [simple |-> FALSE, rb |-> FALSE]}

VARIABLES vals, codes, cuts, row, mode, se, phase, irs, result, nanKeeps
vars == <<vals, codes, cuts, row, mode, se, phase, irs, result, nanKeeps>>

agg == AggTable[row]

Init ==
  /\ vals = <<>> /\ codes = <<>> /\ cuts = <<>>
  /\ row \in Rows
  /\ mode \in Modes(AggTable[row])
  /\ se \in SplitEverys
  /\ nanKeeps \in (IF AggTable[row].name \in {"nanmax", "nanmin"} THEN BOOLEAN ELSE {FALSE})
  /\ phase = "input" /\ irs = <<>> /\ result = [groups |-> <<>>, result |-> <<>>]

Grow ==
  /\ phase = "input" /\ Len(vals) < MaxLen
  /\ \E v \in Alphabet, c \in Labels, cut \in BOOLEAN :
       /\ vals' = Append(vals, v) /\ codes' = Append(codes, c) /\ cuts' = Append(cuts, cut)
  /\ UNCHANGED <<row, mode, se, phase, irs, result, nanKeeps>>

\* block boundaries: after every position i with cuts[i], and after the last element
Ends == SelectSeq(Indices(vals), LAMBDA i : cuts[i] \/ i = Len(vals))
BlockStart(b) == IF b = 1 THEN 1 ELSE Ends[b - 1] + 1

BlockStage ==
  /\ phase = "input" /\ vals # <<>>
  /\ irs' = [b \in 1..Len(Ends) |->
               ChunkSem(agg, SubSeq(vals, BlockStart(b), Ends[b]), SubSeq(codes, BlockStart(b), Ends[b]),
                        BlockStart(b) - 1,
                        [reindex |-> mode.rb, expected |-> Expected, dropMissing |-> mode.rb, nanKeepsNaN |-> nanKeeps])]
  /\ phase' = "tree"
  /\ UNCHANGED <<vals, codes, cuts, row, mode, se, result, nanKeeps>>

NParts(n) == (n + se - 1) \div se
Part(j) == SubSeq(irs, (j - 1) * se + 1, IF j * se < Len(irs) THEN j * se ELSE Len(irs))

CombineLevel ==
  /\ phase = "tree" /\ Len(irs) > se
  /\ irs' = [j \in 1..NParts(Len(irs)) |-> Combine(agg, Part(j), mode.simple, mode.rb, nanKeeps)]
  /\ UNCHANGED <<vals, codes, cuts, row, mode, se, phase, result, nanKeeps>>

Aggregate ==
  /\ phase = "tree" /\ Len(irs) <= se
  /\ result' = AggregateSem(agg, irs, [simple |-> mode.simple, reindexBlockwise |-> mode.rb,
                                        finalReindex |-> ~mode.rb, expected |-> Expected, nanKeepsNaN |-> nanKeeps])
  /\ phase' = "done"
  /\ UNCHANGED <<vals, codes, cuts, row, mode, se, irs, nanKeeps>>

Next == Grow \/ BlockStage \/ CombineLevel \/ Aggregate
Spec == Init /\ [][Next]_vars

RefMinCount == IF agg.userFill.some /\ agg.minCount > 0 THEN agg.minCount ELSE -1
RefResult == RefGroupby(agg.name, vals, codes, Expected, agg.userFill, RefMinCount, [ddof |-> agg.ddof, q |-> <<1, 2>>])

\* C02 / C04: the finished pipeline equals the reference on every slot
InvResult ==
  (phase = "done" /\ agg.lawful) =>
    /\ result.groups = Expected
    /\ \A k \in 1..NLabels : Matches(RefResult[k], result.result[k]) \/ IsUnspec(result.result[k])

\* C09 (counted once) at every level: the labels carried by the tree are exactly the labels present
\* (or all requested labels when reindexing at the block stage), never duplicated
InvLabels ==
  phase = "tree" =>
    \A n \in 1..Len(irs) : NoRepeats(irs[n].groups)
=============================================================================
