-------------------------------- MODULE Tree --------------------------------
(***************************************************************************)
(* Shape of the reduction trees flox builds over the blocks of one reduced  *)
(* axis: dask's _tree_reduce (map-reduce) and flox's own                    *)
(* dask_array_ops._tree_reduce / partial_reduce / get_parts (per cohort).   *)
(* Both partition the current level with toolz.partition_all(split_every)   *)
(* and run  depth = ceil(log_k n)  levels (the last one is the aggregate).  *)
(* A node is identified with the ORDERED sequence of leaf blocks below it.  *)
(***************************************************************************)
EXTENDS Integers, Sequences, FiniteSets

RECURSIVE Pow(_, _)
Pow(k, d) == IF d = 0 THEN 1 ELSE k * Pow(k, d - 1)

\* exact depth: the least d >= 1 with k^d >= n
RECURSIVE DepthFrom(_, _, _)
DepthFrom(n, k, d) == IF Pow(k, d) >= n THEN d ELSE DepthFrom(n, k, d + 1)
Depth(n, k) == DepthFrom(n, k, 1)

NParts(m, k) == (m + k - 1) \div k
PartIdx(m, k, j) == ((j - 1) * k + 1)..(IF j * k < m THEN j * k ELSE m)

Concat2(a, b) == a \o b
RECURSIVE ConcatRange(_, _, _)
ConcatRange(nodes, lo, hi) == IF lo > hi THEN <<>> ELSE nodes[lo] \o ConcatRange(nodes, lo + 1, hi)

\* one level of partial_reduce over the node sequence
ReduceLevel(nodes, k) ==
  [j \in 1..NParts(Len(nodes), k) |->
     ConcatRange(nodes, (j - 1) * k + 1, IF j * k < Len(nodes) THEN j * k ELSE Len(nodes))]

Leaves(n) == [b \in 1..n |-> <<b>>]

RECURSIVE LevelsFrom(_, _, _)
\* the sequence of levels (each a node sequence) produced by d further reductions
LevelsFrom(nodes, k, d) == IF d = 0 THEN <<>> ELSE <<ReduceLevel(nodes, k)>> \o LevelsFrom(ReduceLevel(nodes, k), k, d - 1)

\* predicted levels above the leaves for n blocks and split_every k
TreeLevels(n, k) == LevelsFrom(Leaves(n), k, Depth(n, k))

AllLeavesInOrder(nodes, n) == ConcatRange(nodes, 1, Len(nodes)) = [b \in 1..n |-> b]
=============================================================================
