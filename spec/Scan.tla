-------------------------------- MODULE Scan --------------------------------
(***************************************************************************)
(* Grouped scans (flox.core.groupby_scan / dask_groupby_scan,               *)
(* flox.aggregations.scan_binary_op).                                       *)
(*   chunk_scan       in-block per-group scan              -> BlockScan     *)
(*   grouped_reduce   per-block per-group "last" of the scan -> BlockState  *)
(*   scan_binary_op   carries the per-group state across blocks, in two     *)
(*                    modes: "apply_binary_op" (nancumsum: add the state)   *)
(*                    and "concat_then_scan" (ffill: concatenate the state  *)
(*                    in front of the block and scan again, keep the tail)  *)
(* dask's Blelloch cumreduction combines block states with the operator in  *)
(* an arbitrary balanced bracketing, so the operator must be associative.   *)
(* bfill is ffill on the globally reversed input (Scan.preprocess/finalize).*)
(* A state is [groups |-> ascending labels, vals |-> one value per label].  *)
(***************************************************************************)
EXTENDS Ref

Core(func) == IF func = "nancumsum" THEN "nancumsum" ELSE "ffill"
Identity(func) == IF func = "nancumsum" THEN Zero ELSE NaN

GroupsOf(codes) == SortInts(Dedup(codes))

\* grouped_reduce: nansum / nanlast per group of the block
BlockState(func, vals, codes) ==
  LET gs == GroupsOf(codes) IN
  [groups |-> gs,
   vals |-> [k \in 1..Len(gs) |->
               LET mem == Members(vals, codes, gs[k]) IN
               IF Core(func) = "nancumsum" THEN SumSeq(DropNaN(mem)) ELSE LastNotNull(mem)]]

\* chunk_scan: the in-block scan, position by position
BlockScan(func, vals, codes) ==
  [i \in 1..Len(vals) |-> ScanSeq(Core(func), Members(vals, codes, codes[i]))[RankInGroup(codes, i)]]

Has(st, g) == \E k \in 1..Len(st.groups) : st.groups[k] = g
Get(st, g, ident) == IF Has(st, g) THEN st.vals[CHOOSE k \in 1..Len(st.groups) : st.groups[k] = g] ELSE ident

\* scan_binary_op when the right operand is a STATE (building the prefix tree)
BinopState(func, L, R) ==
  LET gs == SortInts(Dedup(L.groups \o R.groups))
      res(g) == IF Core(func) = "nancumsum" THEN Add(Get(L, g, Zero), Get(R, g, Zero))
                ELSE (IF NotNull(Get(R, g, NaN)) THEN Get(R, g, NaN) ELSE Get(L, g, NaN))
      \* lasts = last non-NaN of (left entry, result entry) per group
      val(g) == LET cand == (IF Has(L, g) THEN <<Get(L, g, NaN)>> ELSE <<>>) \o (IF Has(R, g) THEN <<res(g)>> ELSE <<>>)
                IN LastNotNull(cand)
  IN [groups |-> gs, vals |-> [k \in 1..Len(gs) |-> val(gs[k])]]

\* scan_binary_op when the right operand is a block RESULT (the final down-sweep step)
BinopResult(func, L, res, codes) ==
  [i \in 1..Len(res) |->
     IF Core(func) = "nancumsum" THEN Add(Get(L, codes[i], Zero), res[i])
     ELSE (IF NotNull(res[i]) THEN res[i] ELSE Get(L, codes[i], NaN))]

EmptyState == [groups |-> <<>>, vals |-> <<>>]
=============================================================================
