-------------------------------- MODULE Ref ---------------------------------
(***************************************************************************)
(* Reference semantics (the property-side oracle).  Written directly from  *)
(* NumPy's / pandas' definitions and independent of the way flox computes  *)
(* anything: per-group left folds, two-pass variance, first-occurrence     *)
(* arg-extrema, linear-interpolation quantiles, sequential scans,          *)
(* pandas.cut.  harness/selftest.py replays the enumerated alphabet        *)
(* through real NumPy/pandas and requires equality with these operators.   *)
(***************************************************************************)
EXTENDS Values

\* ------------------------------------------------------------ sequences
Indices(s) == [i \in 1..Len(s) |-> i]
Positions(codes, g) == SelectSeq(Indices(codes), LAMBDA i : codes[i] = g)
Pick(s, idx) == [k \in 1..Len(idx) |-> s[idx[k]]]
Members(vals, codes, g) == Pick(vals, Positions(codes, g))

RECURSIVE InsertSorted(_, _, _)
InsertSorted(lt(_, _), x, s) ==
  IF s = <<>> THEN <<x>>
  ELSE IF lt(x, Head(s)) THEN <<x>> \o s
  ELSE <<Head(s)>> \o InsertSorted(lt, x, Tail(s))
RECURSIVE SortBy(_, _)
\* stable insertion sort (later equal elements stay behind earlier ones)
SortBy(lt(_, _), s) ==
  IF s = <<>> THEN <<>>
  ELSE LET r == SortBy(lt, SubSeq(s, 1, Len(s) - 1)) IN
       \* insert the last element after all elements not greater than it
       LET x == s[Len(s)]
           RECURSIVE Ins(_)
           Ins(t) == IF t = <<>> THEN <<x>>
                     ELSE IF lt(x, Head(t)) THEN <<x>> \o t
                     ELSE <<Head(t)>> \o Ins(Tail(t))
       IN Ins(r)

IntLt(a, b) == a < b
SortInts(s) == SortBy(IntLt, s)

RECURSIVE Dedup(_)
\* remove repeats keeping first occurrences
Dedup(s) ==
  IF s = <<>> THEN <<>>
  ELSE LET r == Dedup(SubSeq(s, 1, Len(s) - 1)) x == s[Len(s)] IN
       IF \E i \in 1..Len(r) : r[i] = x THEN r ELSE Append(r, x)

SeqToSet(s) == {s[i] : i \in 1..Len(s)}
\* 0-based position of x in s, -1 when absent
IndexOf0(s, x) == IF \E i \in 1..Len(s) : s[i] = x THEN (CHOOSE i \in 1..Len(s) : s[i] = x) - 1 ELSE -1
HasNaN(s) == \E i \in 1..Len(s) : IsNaN(s[i])

\* ------------------------------------------------------- plain reductions
MaxSeq(s)  == FoldSeq(Max2, s[1], Tail(s))      \* NaN-propagating
MinSeq(s)  == FoldSeq(Min2, s[1], Tail(s))

\* position (1-based, within s) of the first occurrence of the extreme value
\* among the non-NaN elements; 0 when there is none.
ArgExt(s, better(_, _)) ==
  LET cand == {i \in 1..Len(s) : NotNull(s[i])} IN
  IF cand = {} THEN 0
  ELSE CHOOSE i \in cand :
         /\ \A j \in cand : ~better(s[j], s[i])
         /\ \A j \in cand : (j < i) => better(s[i], s[j])

Gt(a, b) == Lt(b, a)

Mean(s) == Div(SumSeq(s), I(Len(s)))

\* two-pass variance, deliberately NOT the sum-of-squares formula flox uses
Var(s, ddof) ==
  LET n == Len(s) IN
  IF n - ddof <= 0 THEN NaN
  ELSE LET m == Mean(s)
           dev == [i \in 1..n |-> Sq(Sub(s[i], m))]
       IN Div(SumSeq(dev), I(n - ddof))

\* numpy.quantile(method="linear") on a non-empty NaN-free sequence
QuantileSorted(srt, q) ==
  LET n   == Len(srt)
      vi  == Mul(q, I(n - 1))
      lo  == Floor(vi)
      hi  == Ceil(vi)
      fr  == Sub(vi, I(lo))
  IN  Add(srt[lo + 1], Mul(Sub(srt[hi + 1], srt[lo + 1]), fr))

Quantile(s, q) ==
  IF s = <<>> THEN NaN
  ELSE IF HasNaN(s) THEN NaN
  ELSE QuantileSorted(SortBy(Lt, s), q)

BoolAll(s) == IF \A i \in 1..Len(s) : s[i] # Zero THEN One ELSE Zero
BoolAny(s) == IF \E i \in 1..Len(s) : s[i] # Zero THEN One ELSE Zero

FirstNotNull(s) == LET d == DropNaN(s) IN IF d = <<>> THEN NaN ELSE d[1]
LastNotNull(s)  == LET d == DropNaN(s) IN IF d = <<>> THEN NaN ELSE d[Len(d)]

(***************************************************************************)
(* RefReduce(func, s, kw): the NumPy reduction named `func` applied to the *)
(* NON-EMPTY member sequence s (original order).  kw = [ddof, q].          *)
(* For arg-reductions the result is the 1-based position within s          *)
(* (0 = undefined); the caller maps it to a global index.                  *)
(* For std the result is the VARIANCE (compared by squaring on the Python  *)
(* side; square roots are not taken in the specification).                 *)
(***************************************************************************)
RefReduce(func, s, kw) ==
  LET d == DropNaN(s) IN
  CASE func = "sum"      -> SumSeq(s)
    [] func = "nansum"   -> SumSeq(d)
    [] func = "prod"     -> ProdSeq(s)
    [] func = "nanprod"  -> ProdSeq(d)
    [] func = "count"    -> I(Len(d))
    [] func = "mean"     -> Mean(s)
    [] func = "nanmean"  -> IF d = <<>> THEN NaN ELSE Mean(d)
    [] func \in {"var", "std"}       -> Var(s, kw.ddof)
    [] func \in {"nanvar", "nanstd"} -> IF d = <<>> THEN NaN ELSE Var(d, kw.ddof)
    [] func = "max"      -> MaxSeq(s)
    [] func = "min"      -> MinSeq(s)
    [] func = "nanmax"   -> IF d = <<>> THEN NaN ELSE MaxSeq(d)
    [] func = "nanmin"   -> IF d = <<>> THEN NaN ELSE MinSeq(d)
    [] func \in {"argmax", "nanargmax"} -> I(ArgExt(s, Gt))
    [] func \in {"argmin", "nanargmin"} -> I(ArgExt(s, Lt))
    [] func = "first"    -> s[1]
    [] func = "last"     -> s[Len(s)]
    [] func = "nanfirst" -> FirstNotNull(s)
    [] func = "nanlast"  -> LastNotNull(s)
    [] func = "all"      -> BoolAll(s)
    [] func = "any"      -> BoolAny(s)
    [] func = "median"   -> Quantile(s, <<1, 2>>)
    [] func = "nanmedian"-> Quantile(d, <<1, 2>>)
    [] func = "quantile" -> Quantile(s, kw.q)
    [] func = "nanquantile" -> Quantile(d, kw.q)
    \* intended whole-group semantics of the driver's user-defined aggregations (harness/userlib.py)
    [] func = "user_range"    -> Sub(MaxSeq(s), MinSeq(s))
    [] func = "user_nanrange" -> IF d = <<>> THEN NaN ELSE Sub(MaxSeq(d), MinSeq(d))
    [] func = "user_meansq"   -> Div(SumSeq([i \in 1..Len(s) |-> Sq(s[i])]), I(Len(d)))
    [] func = "user_maxofsums" -> SumSeq(s)   \* (not a lawful decomposition; never compared)

IsArgFunc(func) == func \in {"argmax", "argmin", "nanargmax", "nanargmin"}
IsNanSkipping(func) ==
  func \in {"nansum", "nanprod", "count", "nanmean", "nanvar", "nanstd", "nanmax", "nanmin",
            "nanargmax", "nanargmin", "nanfirst", "nanlast", "nanmedian", "nanquantile"}

(***************************************************************************)
(* Where the property texts say NumPy is undefined or conventions differ   *)
(* the reference answers "unspecified" and no comparison is made.          *)
(*   - argmax/argmin on a group containing NaN                             *)
(*   - nanarg* on an all-NaN group                                         *)
(*   - order statistics on non-finite data                                 *)
(***************************************************************************)
Specified(func, s) ==
  LET d == DropNaN(s) IN
  CASE func \in {"argmax", "argmin"}       -> ~HasNaN(s)
    \* NumPy documents that nanargmax/nanargmin "cannot be trusted" when NaN and -inf/+inf meet
    \* (it substitutes -inf/+inf for NaN): unspecified when the extreme itself is that infinity
    [] func = "nanargmax" -> d # <<>> /\ ~(HasNaN(s) /\ MaxSeq(d) = NInf)
    [] func = "nanargmin" -> d # <<>> /\ ~(HasNaN(s) /\ MinSeq(d) = PInf)
    [] func \in {"median", "nanmedian", "quantile", "nanquantile"} ->
         \A i \in 1..Len(s) : ~IsInf(s[i])
    [] func = "user_nanrange" -> d # <<>>   \* user library: needs min_count >= 1 to be defined on all-NaN groups
    [] OTHER -> TRUE

(***************************************************************************)
(* Grouped reduction of a 1-D problem.                                     *)
(*   vals    sequence of values                                            *)
(*   codes   sequence of integer label tokens, -1 = missing label          *)
(*   groups  the labels of the output slots, in output order               *)
(*   fill    [some |-> BOOLEAN, v |-> value]  the user's fill_value        *)
(*   minCount  -1 when not given                                           *)
(* Result: one value per slot.  Arg-reductions give the 0-based GLOBAL     *)
(* position.                                                               *)
(***************************************************************************)
\* the slot receives the user's fill (label absent, or fewer than min_count valid members)
RefIsFill(vals, codes, g, minCount) ==
  LET mem == Members(vals, codes, g) IN
  mem = <<>> \/ (minCount > 0 /\ CountNotNull(mem) < minCount)

RefSlot(func, vals, codes, g, fill, minCount, kw) ==
  LET pos == Positions(codes, g)
      mem == Pick(vals, pos)
      nvalid == CountNotNull(mem)
      filled == IF fill.some THEN fill.v ELSE Unspec
  IN
  IF RefIsFill(vals, codes, g, minCount) THEN filled
  ELSE IF minCount < 0 /\ nvalid = 0 /\ fill.some THEN Unspec
       \* implicit min_count: flox documents that the fill may also be applied
       \* to groups with no valid member; NumPy's answer and the fill are both
       \* tolerated by the property text ("fewer than min_count" with None).
  ELSE IF ~Specified(func, mem) THEN Unspec
  ELSE IF IsArgFunc(func)
       THEN I(pos[RefReduce(func, mem, kw)[1]] - 1)
       ELSE RefReduce(func, mem, kw)

RefGroupby(func, vals, codes, groups, fill, minCount, kw) ==
  [k \in 1..Len(groups) |-> RefSlot(func, vals, codes, groups[k], fill, minCount, kw)]

\* the labels present in the data (missing excluded), ascending / first appearance
PresentSorted(codes) == SortInts(Dedup(SelectSeq(codes, LAMBDA c : c >= 0)))
PresentInOrder(codes) == Dedup(SelectSeq(codes, LAMBDA c : c >= 0))

\* the sort contract (C05, C16)
RefGroups(codes, req, sort) ==
  IF req.some THEN (IF sort THEN SortInts(req.v) ELSE req.v)
  ELSE (IF sort THEN PresentSorted(codes) ELSE PresentInOrder(codes))

StrictlyAscending(s) == \A i \in 1..(Len(s) - 1) : s[i] < s[i + 1]
NoRepeats(s) == \A i, j \in 1..Len(s) : i # j => s[i] # s[j]

\* ------------------------------------------------------------------ scans
\* per-group sequential scans on a 1-D problem (codes -1 = missing label)
RECURSIVE CumSumNan(_)
CumSumNan(s) ==
  IF s = <<>> THEN <<>>
  ELSE LET r == CumSumNan(SubSeq(s, 1, Len(s) - 1))
           prev == IF r = <<>> THEN Zero ELSE r[Len(r)]
           x == s[Len(s)]
       IN Append(r, Add(prev, IF IsNaN(x) THEN Zero ELSE x))

RECURSIVE FFill(_)
FFill(s) ==
  IF s = <<>> THEN <<>>
  ELSE LET r == FFill(SubSeq(s, 1, Len(s) - 1))
           x == s[Len(s)]
       IN Append(r, IF IsNaN(x) /\ r # <<>> THEN r[Len(r)] ELSE x)

Reverse(s) == [i \in 1..Len(s) |-> s[Len(s) + 1 - i]]
BFill(s) == Reverse(FFill(Reverse(s)))

ScanSeq(func, s) ==
  CASE func = "nancumsum" -> CumSumNan(s)
    [] func = "ffill"     -> FFill(s)
    [] func = "bfill"     -> BFill(s)

\* rank of position i within its group (1-based)
RankInGroup(codes, i) == Cardinality({j \in 1..i : codes[j] = codes[i]})

RefScan(func, vals, codes) ==
  [i \in 1..Len(vals) |->
     IF codes[i] < 0 THEN Unspec       \* missing label: ffill/bfill leave the value, see TraceScan
     ELSE ScanSeq(func, Members(vals, codes, codes[i]))[RankInGroup(codes, i)]]

\* ----------------------------------------------------------- pandas.cut
\* bin index (0-based) of x for edges e[1] < e[2] < ... ; -1 when outside / missing
RefCut(x, edges, closedRight) ==
  IF IsNaN(x) \/ Len(edges) < 2 THEN -1
  ELSE LET inbin(k) == IF closedRight
                       THEN Lt(edges[k], x) /\ Le(x, edges[k + 1])
                       ELSE Le(edges[k], x) /\ Lt(x, edges[k + 1])
           hits == {k \in 1..(Len(edges) - 1) : inbin(k)}
       IN IF hits = {} THEN -1 ELSE (CHOOSE k \in hits : TRUE) - 1
=============================================================================
