----------------------------- MODULE MC_Quantile -----------------------------
(* C18 at design level: the transcribed index arithmetic of quantile_ equals   *)
(* numpy.quantile(method="linear") for every small configuration: values incl. *)
(* NaN, two interleaved groups (so a group's neighbour is there to be read by   *)
(* mistake), every q of the set, skipna or not.                                 *)
EXTENDS Engines, TLC
CONSTANTS MaxLen, MaskAllNaN
Alpha == {<<-2,1>>, <<0,1>>, <<1,1>>, <<4,1>>, <<0,0>>}
Qs == {<<0,1>>, <<1,4>>, <<1,3>>, <<1,2>>, <<9,10>>, <<1,1>>}
VARIABLES vals, codes
Init == vals = <<>> /\ codes = <<>>
Grow == /\ Len(vals) < MaxLen
        /\ \E v \in Alpha, c \in {0, 1} : vals' = Append(vals, v) /\ codes' = Append(codes, c)
Next == Grow
Spec == Init /\ [][Next]_<<vals, codes>>

QuantileFloxIsRef ==
  \A g \in {0, 1} : \A q \in Qs : \A skipna \in BOOLEAN :
     LET mem == Members(vals, codes, g) IN
     mem # <<>> =>
       QuantileFlox(vals, codes, 2, g, q, skipna, MaskAllNaN)
         = (IF skipna THEN Quantile(DropNaN(mem), q) ELSE Quantile(mem, q))
=============================================================================
