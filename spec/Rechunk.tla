------------------------------- MODULE Rechunk -------------------------------
(***************************************************************************)
(* The rechunking helpers of flox/core.py, transcribed:                     *)
(*   _get_optimal_chunks_for_groups (used by rechunk_for_blockwise and by   *)
(*       method="blockwise" on 1-D labels)                                  *)
(*   the division loop of rechunk_for_cohorts                               *)
(* labels: sequence of integer codes (1-based positions here, 0-based in    *)
(* the code); chunks: sequence of positive sizes summing to Len(labels).    *)
(***************************************************************************)
EXTENDS Integers, Sequences, FiniteSets

Abs(x) == IF x < 0 THEN -x ELSE x
RECURSIVE SumSeqI(_)
SumSeqI(s) == IF s = <<>> THEN 0 ELSE Head(s) + SumSeqI(Tail(s))
CumSum(s) == [k \in 1..Len(s) |-> SumSeqI(SubSeq(s, 1, k))]
SetToSortedSeq(S) ==
  LET RECURSIVE F(_)
      F(T) == IF T = {} THEN <<>> ELSE LET m == CHOOSE x \in T : \A y \in T : x <= y IN <<m>> \o F(T \ {m})
  IN F(S)
Diff(s) == [k \in 1..(Len(s) - 1) |-> s[k + 1] - s[k]]

\* 0-based index arithmetic exactly as in the code
FirstIdx0(labels, g) == (CHOOSE i \in 1..Len(labels) : labels[i] = g /\ \A j \in 1..(i - 1) : labels[j] # g) - 1
LastIdx0(labels, g)  == (CHOOSE i \in 1..Len(labels) : labels[i] = g /\ \A j \in (i + 1)..Len(labels) : labels[j] # g) - 1

OptimalChunks(chunks, labels) ==
  LET chunkidx == [k \in 1..Len(chunks) |-> CumSum(chunks)[k] - 1]                  \* last index of every chunk
      atBounds == SetToSortedSeq({labels[chunkidx[k] + 1] : k \in 1..Len(chunks)})   \* _unique(labels[chunkidx])
      lastidx == [k \in 1..Len(atBounds) |-> LastIdx0(labels, atBounds[k])]
      firstidx == [k \in 1..Len(atBounds) |-> FirstIdx0(labels, atBounds[k])]
      m == IF Len(chunkidx) < Len(atBounds) THEN Len(chunkidx) ELSE Len(atBounds)      \* zip() truncates
      RECURSIVE Loop(_, _)
      Loop(k, acc) ==
        IF k > m THEN acc
        ELSE LET c == chunkidx[k]  f == firstidx[k]  l == lastidx[k]  lastNew == acc[Len(acc)] IN
             IF c = 0 \/ lastNew > l THEN Loop(k + 1, acc)
             ELSE IF Abs(c - f) < Abs(c - l) /\ f > lastNew THEN Loop(k + 1, Append(acc, f))
             ELSE Loop(k + 1, Append(acc, l + 1))
      looped == Loop(1, <<0>>)
      final == IF looped[Len(looped)] # chunkidx[Len(chunkidx)] + 1 THEN Append(looped, chunkidx[Len(chunkidx)] + 1) ELSE looped
  IN IF Len(chunkidx) = Len(lastidx) /\ \A k \in 1..Len(chunkidx) : chunkidx[k] = lastidx[k] THEN chunks
     ELSE Diff(final)

\* rechunk_for_cohorts: the divisions loop
CohortChunks(labels, oldchunks, force, chunksize, ignoreOld) ==
  LET n == Len(labels)
      oldbreaks == {0} \cup {CumSum(oldchunks)[k] : k \in 1..Len(oldchunks)}
      isbreak(i0) == labels[i0 + 1] \in force                      \* 0-based position
      \* "next_break.any()" is false when the only upcoming break is at offset 0 of the slice
      nextClose(i0) == LET nb == {j \in i0..(n - 1) : isbreak(j)} IN
                       IF nb = {} \/ ~(\E j \in nb : j - i0 # 0) THEN FALSE
                       ELSE (CHOOSE j \in nb : \A q \in nb : j <= q) - i0 <= chunksize \div 2
      RECURSIVE Loop(_, _, _)
      Loop(i0, divs, counter) ==
        IF i0 >= n THEN divs
        ELSE IF isbreak(i0) \/ i0 = 0 THEN Loop(i0 + 1, Append(divs, i0), 1)
        ELSE IF (~ignoreOld /\ i0 \in oldbreaks) \/ (counter >= chunksize /\ ~nextClose(i0)) THEN Loop(i0 + 1, Append(divs, i0), 1)
        ELSE Loop(i0 + 1, divs, counter + 1)
  IN Diff(Append(Loop(0, <<>>, 1), n))

(***************************************************************************)
(* Postconditions (C17), independent of the algorithms.                     *)
(***************************************************************************)
ValidChunks(new, n) == SumSeqI(new) = n /\ \A k \in 1..Len(new) : new[k] > 0
Boundaries(new) == {CumSum(new)[k] : k \in 1..(Len(new) - 1)}       \* number of elements before each interior boundary
NonDecreasing(labels) == \A i \in 1..(Len(labels) - 1) : labels[i] <= labels[i + 1]
\* after rechunk_for_blockwise with sequential labels no group straddles a boundary
NoGroupStraddles(new, labels) == \A p \in Boundaries(new) : labels[p] # labels[p + 1]
\* after rechunk_for_cohorts every occurrence of a forced label starts a chunk ...
ForcedStartChunks(new, labels, force) == \A i \in 2..Len(labels) : labels[i] \in force => (i - 1) \in Boundaries(new)
\* ... and old boundaries are kept unless told to ignore them
OldKept(new, old) == Boundaries(old) \subseteq Boundaries(new)
=============================================================================
