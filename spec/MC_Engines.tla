----------------------------- MODULE MC_Engines -----------------------------
(* Model: grow one group's member sequence symbol by symbol (so all workers  *)
(* share the enumeration) and require every engine wrapper to agree with Ref.*)
EXTENDS Engines, TLC

CONSTANTS MaxLen, Sentinel
AlphaF8 == {<<-2,1>>, <<-1,1>>, <<0,1>>, <<1,1>>, <<3,1>>, <<0,0>>, <<1,0>>, <<-1,0>>}

VARIABLE s
Init == s = <<>>
Grow == /\ Len(s) < MaxLen
        /\ \E v \in AlphaF8 : s' = Append(s, v)
Next == Grow
Spec == Init /\ [][Next]_s

Kw0 == [ddof |-> 0, q |-> <<1, 2>>]

InvFlox == s # <<>> => \A f \in FloxFuncs : EngineFlox(f, s, Sentinel) = RefReduce(f, s, Kw0)
InvNpg  == s # <<>> => \A f \in NpgFuncs : EngineNpg(f, s) = RefReduce(f, s, Kw0)
InvVar  == s # <<>> => \A ddof \in {0, 1} :
             /\ NpgVar(s, ddof, FALSE) = RefReduce("var", s, [ddof |-> ddof, q |-> <<1, 2>>])
             /\ NpgVar(s, ddof, TRUE) = RefReduce("nanvar", s, [ddof |-> ddof, q |-> <<1, 2>>])
=============================================================================
