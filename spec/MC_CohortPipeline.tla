-------------------------- MODULE MC_CohortPipeline ---------------------------
(***************************************************************************)
(* The "cohorts" strategy end to end, composing the planner (Cohorts.tla)   *)
(* with the aggregation algebra (Aggs.tla) on the LIVE blueprint table:     *)
(*   layout (values, labels, chunk cuts)                                    *)
(*     -> incidence matrix -> FindGroupCohorts(merge)                       *)
(*     -> per cohort: its blocks in ascending order, block stage without    *)
(*        reindexing, reindex_intermediates onto the cohort's labels,       *)
(*        combine tree (split_every), aggregate with the cohort's labels    *)
(*     -> concatenate the cohorts' outputs, final reindex to the requested  *)
(*        labels.                                                           *)
(* Invariant: every requested label receives the reference value (C02, C09: *)
(* a cohort whose block set misses a block, or a label in no / two cohorts, *)
(* shows up as a wrong value here).                                         *)
(***************************************************************************)
EXTENDS Aggs, AggTable, Cohorts, TLC

CONSTANTS MaxLen, NLabels, SplitEvery, Names

AlphaF8 == {<<-2,1>>, <<1,1>>, <<0,0>>}
Rows == {i \in 1..Len(AggTable) : AggTable[i].dtype = "f8" /\ AggTable[i].name \in Names /\ AggTable[i].lawful}
Expected == [i \in 1..NLabels |-> i - 1]

VARIABLES vals, codes, cuts
vars == <<vals, codes, cuts>>
Init == vals = <<>> /\ codes = <<>> /\ cuts = <<>>
Grow == /\ Len(vals) < MaxLen
        /\ \E v \in AlphaF8, c \in 0..(NLabels - 1), cut \in BOOLEAN :
             vals' = Append(vals, v) /\ codes' = Append(codes, c) /\ cuts' = Append(cuts, cut)
Next == Grow
Spec == Init /\ [][Next]_vars

Ends == SelectSeq(Indices(vals), LAMBDA i : cuts[i] \/ i = Len(vals))
NB == Len(Ends)
BStart(b) == IF b = 1 THEN 1 ELSE Ends[b - 1] + 1
BV(b) == SubSeq(vals, BStart(b), Ends[b])
BC(b) == SubSeq(codes, BStart(b), Ends[b])
Incidence == [b \in 1..NB |-> {BC(b)[i] : i \in 1..Len(BC(b))}]
Single == \A b \in 1..NB : Ends[b] - BStart(b) = 0

SetToSeq(S) == LET RECURSIVE F(_)
                   F(T) == IF T = {} THEN <<>> ELSE LET m == CHOOSE x \in T : \A y \in T : x <= y IN <<m>> \o F(T \ {m})
               IN F(S)

RECURSIVE TreeReduce(_, _, _)
TreeReduce(agg, irs, simple) ==
  IF Len(irs) <= SplitEvery THEN irs
  ELSE TreeReduce(agg, [j \in 1..((Len(irs) + SplitEvery - 1) \div SplitEvery) |->
                          Combine(agg, SubSeq(irs, (j - 1) * SplitEvery + 1, IF j * SplitEvery < Len(irs) THEN j * SplitEvery ELSE Len(irs)), simple, simple, FALSE)],
                  simple)

\* the value the cohorts strategy delivers for label g under blueprint agg with the given combine kind
CohortValue(agg, simple, plan, g) ==
  LET mine == {p \in plan.cohorts : g \in p.labels} IN
  IF mine = {} THEN (IF agg.userFill.some THEN agg.userFill.v ELSE Unspec)         \* label absent: final reindex fills
  ELSE LET p == CHOOSE q \in mine : TRUE
           blocks == SetToSeq(p.chunks)
           labs == SetToSeq(p.labels)
           irs0 == [k \in 1..Len(blocks) |->
                      LET raw == ChunkSem(agg, BV(blocks[k]), BC(blocks[k]), BStart(blocks[k]) - 1,
                                          [reindex |-> FALSE, expected |-> <<>>, dropMissing |-> FALSE, nanKeepsNaN |-> FALSE])
                      IN IF simple THEN ReindexIR(agg, raw, labs) ELSE raw]
           top == TreeReduce(agg, irs0, simple)
           res == AggregateSem(agg, top, [simple |-> simple, reindexBlockwise |-> simple, finalReindex |-> ~simple, expected |-> labs, nanKeepsNaN |-> FALSE])
           j == IndexOf(res.groups, g)
       IN IF j = 0 THEN NaN ELSE res.result[j]

\* vacuity witness: must be VIOLATED (some layout makes the planner choose / accept cohorts)
NeverExercised ==
  ~(vals # <<>> /\ NB > 1 /\ \E merge \in BOOLEAN :
       LET plan == FindGroupCohorts(Incidence, NLabels, merge, Single) IN plan.cohorts # {} /\ (merge \/ plan.method = "cohorts"))

RefMinCount(agg) == IF agg.userFill.some /\ agg.minCount > 0 THEN agg.minCount ELSE -1

CohortsStrategyIsRef ==
  (vals # <<>> /\ NB > 1) =>
    \A merge \in BOOLEAN :
      LET plan == FindGroupCohorts(Incidence, NLabels, merge, Single) IN
      \* the strategy is used when requested explicitly (merge) or preferred by the planner
      (plan.cohorts # {} /\ (merge \/ plan.method = "cohorts")) =>
        \A r \in Rows : \A simple \in (IF AggTable[r].rtype = "argreduce" THEN {FALSE} ELSE BOOLEAN) : \A g \in 0..(NLabels - 1) :
          LET agg == AggTable[r] IN
          Matches(RefSlot(agg.name, vals, codes, g, agg.userFill, RefMinCount(agg), [ddof |-> agg.ddof, q |-> <<1, 2>>]),
                  CohortValue(agg, simple, plan, g))
          \/ IsUnspec(CohortValue(agg, simple, plan, g))
=============================================================================
