------------------------------- MODULE TracePlan ------------------------------
(* Trace specification for the argument-configuration product (C19).  One line =   *)
(* one input and one setting of (func, engine, reindex, labels kind, expected,       *)
(* dtype, axis) with the outcome of the call under each of the four `method`         *)
(* values:  out[m] = [kind, vals] with kind "ok" or the exception class name and     *)
(* vals the projected result (flattened).                                             *)
(* Clauses (property level):                                                          *)
(*   clean      every refusal is ValueError / NotImplementedError / ImportError       *)
(*   auto       map-reduce accepted => the automatic method accepted, same answer     *)
(*   explicit   an explicitly requested cohorts / blockwise plan matches map-reduce   *)
(*              or is refused (blockwise only on inputs meeting its precondition)     *)
(* Clause (model level, DRIFT only): the kind predicted by Plan!Outcome.              *)
EXTENDS Plan, Json, IOUtils, TLC
VARIABLE l
TraceLog == ndJsonDeserialize(IOEnv.TRACE_FILE)
Methods == <<"none", "map-reduce", "cohorts", "blockwise">>
Clean == {"ok", "ValueError", "NotImplementedError", "ImportError"}

O(r, m) == r.out[CHOOSE i \in 1..4 : Methods[i] = m]
Same(a, b) == a.vals = b.vals

Bad(r) ==
  LET clean == \A i \in 1..4 : r.out[i].kind \in Clean
      mr == O(r, "map-reduce")
      auto == (mr.kind = "ok") => (O(r, "none").kind = "ok" /\ Same(O(r, "none"), mr))
      expl == /\ (mr.kind = "ok" /\ O(r, "cohorts").kind = "ok") => Same(O(r, "cohorts"), mr)
              /\ (mr.kind = "ok" /\ O(r, "blockwise").kind = "ok" /\ r.confined) => Same(O(r, "blockwise"), mr)
      \* the plan recorded by the FLOX_VERIF hook ("plan" event) against the strategy the model resolves
      drift == \E i \in 1..4 : r.hascfg /\ ~(i = 4 /\ r.skipbw) /\
                 LET o == Outcome([r.cfg EXCEPT !.method = Methods[i]]) IN
                 \/ o.kind # r.out[i].kind
                 \/ (o.kind = "ok" /\ r.out[i].plan \notin {"-", o.method})
                 \/ (o.kind = "ok" /\ r.out[i].engine # "-" /\ r.out[i].engine # ChooseEngine(r.cfg, r.nanskip, r.sortedlabels, r.boolfamily))
                 \/ (o.kind = "ok" /\ r.out[i].rb # "-" /\ o.method # "eager" /\ (r.out[i].rb = "T") # o.rb)
  IN (IF clean THEN {} ELSE {"clean"}) \cup (IF auto THEN {} ELSE {"auto"}) \cup (IF expl THEN {} ELSE {"explicit"})
     \cup (IF drift THEN {"drift"} ELSE {})

Init == l = 1
Next == /\ l <= Len(TraceLog)
        /\ LET r == TraceLog[l] IN IF Bad(r) = {} THEN TRUE
           ELSE PrintT(<<"FAIL", r.id, Bad(r), [i \in 1..4 |-> IF r.hascfg THEN Outcome([r.cfg EXCEPT !.method = Methods[i]]).kind ELSE "-"]>>)
        /\ l' = l + 1
Spec == Init /\ [][Next]_l
TraceAccepted == TLCGet("stats").diameter = Len(TraceLog) + 1
=============================================================================
