------------------------------- MODULE TracePlan ------------------------------
(* Trace specification for the argument-configuration product (C19).  One line =   *)
(* one input and one setting of (func, engine, reindex, labels kind, expected,       *)
(* dtype, axis) with the outcome of the call under each of the four `method`         *)
(* values:  out[m] = [kind, vals] with kind "ok" or the exception class name and     *)
(* vals the projected result (flattened).                                             *)
(* Clauses (property level):                                                          *)
(*   clean      every refusal is ValueError / NotImplementedError / ImportError       *)
(*   auto       map-reduce accepted => the automatic method accepted, same answer     *)
(*   explicit   an explicitly requested cohorts / blockwise plan matches map-reduce   *)
(*              or is refused (blockwise only on inputs meeting its precondition)     *)
(* Clause (model level, DRIFT only): the kind predicted by Plan!Outcome.              *)
EXTENDS Plan, Json, IOUtils, TLC
VARIABLE l
TraceLog == ndJsonDeserialize(IOEnv.TRACE_FILE)
Methods == <<"none", "map-reduce", "cohorts", "blockwise">>
Clean == {"ok", "ValueError", "NotImplementedError", "ImportError"}

O(r, m) == r.out[CHOOSE i \in 1..4 : Methods[i] = m]
Same(a, b) == a.vals = b.vals

\* which model-level predictions differ, per method: <<method index, "kind" | "plan" | "engine" | "rb">>
DriftSet(r) ==
  IF ~r.hascfg THEN {}
  ELSE UNION {LET o == Outcome([r.cfg EXCEPT !.method = Methods[i]]) IN
              (IF o.kind # r.out[i].kind THEN {<<i, "kind">>} ELSE {})
              \cup (IF o.kind = "ok" /\ o.kind = r.out[i].kind /\ r.out[i].plan \notin {"-", o.method} THEN {<<i, "plan">>} ELSE {})
              \cup (IF o.kind = "ok" /\ o.kind = r.out[i].kind /\ r.out[i].engine # "-" /\ r.out[i].engine # ChooseEngine(r.cfg, r.nanskip, r.sortedlabels, r.boolfamily) THEN {<<i, "engine">>} ELSE {})
              \cup (IF o.kind = "ok" /\ o.kind = r.out[i].kind /\ r.out[i].rb # "-" /\ o.method # "eager" /\ (r.out[i].rb = "T") # o.rb THEN {<<i, "rb">>} ELSE {})
              : i \in {j \in 1..4 : ~(j = 4 /\ r.skipbw)}}

Bad(r) ==
  LET clean == \A i \in 1..4 : r.out[i].kind \in Clean
      mr == O(r, "map-reduce")
      auto == (mr.kind = "ok") => (O(r, "none").kind = "ok" /\ Same(O(r, "none"), mr))
      expl == /\ (mr.kind = "ok" /\ O(r, "cohorts").kind = "ok") => Same(O(r, "cohorts"), mr)
              /\ (mr.kind = "ok" /\ O(r, "blockwise").kind = "ok" /\ r.confined) => Same(O(r, "blockwise"), mr)
      \* the plan recorded by the FLOX_VERIF hook ("plan" event) against the strategy the model resolves
      drift == DriftSet(r) # {}
  IN (IF clean THEN {} ELSE {"clean"}) \cup (IF auto THEN {} ELSE {"auto"}) \cup (IF expl THEN {} ELSE {"explicit"})
     \cup (IF drift THEN {"drift"} ELSE {})

Init == l = 1
Next == /\ l <= Len(TraceLog)
        /\ LET r == TraceLog[l] IN IF Bad(r) = {} THEN TRUE
           ELSE PrintT(<<"FAIL", r.id, Bad(r), [i \in 1..4 |-> IF r.hascfg THEN Outcome([r.cfg EXCEPT !.method = Methods[i]]).kind ELSE "-"], DriftSet(r)>>)
        /\ l' = l + 1
Spec == Init /\ [][Next]_l
TraceAccepted == TLCGet("stats").diameter = Len(TraceLog) + 1
=============================================================================
