----------------------------- MODULE TraceGraph -----------------------------
(***************************************************************************)
(* Trace specification for the tasks of flox's real dask graphs.  The      *)
(* harness scheduler (harness/sched.py) executes the unoptimised graph one  *)
(* task at a time; after each flox task it logs one line carrying the       *)
(* task's arguments (blueprint found inside the task, parameters, the       *)
(* projected outputs of its ordered dependencies) and its projected output. *)
(* Each line is the action RunTask of Exec.tla with the logged output as an *)
(* extra conjunct: out = Sem(kind, blueprint, params, inputs).              *)
(* Verdicts are total (failing lines are reported, the run continues).      *)
(***************************************************************************)
EXTENDS Aggs, Json, IOUtils, TLC

VARIABLE l

TraceLog == ndJsonDeserialize(IOEnv.TRACE_FILE)

Sem(r) ==
  CASE r.kind = "chunk"     -> ChunkSem(r.agg, r.vals, r.codes, r.start, r.p)
    [] r.kind = "subset"    -> ReindexIR(r.agg, r.ins[1], r.p.to)
    [] r.kind = "combine"   -> Combine(r.agg, r.ins, r.p.simple, r.p.reindexBlockwise, r.p.nanKeepsNaN)
    [] r.kind = "aggregate" -> AggregateSem(r.agg, r.ins, r.p)
    [] r.kind = "blockwise" -> BlockwiseSem(r.agg, r.vals, r.codes, r.p)

\* C06: the index block zipped with an array block is the GLOBAL arange cut like the array
IndexBlockOk(r) ==
  (r.kind = "chunk" /\ r.hasidx) => r.idx = [i \in 1..Len(r.vals) |-> r.offset + i - 1]

Ok(r) ==
  /\ IndexBlockOk(r)
  /\ IF r.kind \in {"aggregate", "blockwise"} THEN ResultMatches(Sem(r), r.out) ELSE IRMatches(Sem(r), r.out)

Init == l = 1

Next ==
  /\ l <= Len(TraceLog)
  /\ LET r == TraceLog[l] IN
     IF Ok(r) THEN TRUE
     ELSE PrintT(<<"FAIL", r.id, (IF IndexBlockOk(r) THEN {r.kind} ELSE {r.kind, "index-block"}), Sem(r)>>)
  /\ l' = l + 1

Spec == Init /\ [][Next]_l

TraceAccepted == TLCGet("stats").diameter = Len(TraceLog) + 1
=============================================================================
