------------------------------- MODULE Engines ------------------------------
(***************************************************************************)
(* flox's own code around the kernels, at the level of one group's member  *)
(* sequence s (original order; the stable sort of _prepare_for_flox keeps  *)
(* it).  Transcribed from flox/aggregate_flox.py, aggregate_npg.py,        *)
(* aggregate_numbagg.py.  Kernel primitives (ufunc.reduceat, numpy_groupies*)
(* aggregate, numbagg.grouped) have assumed semantics that the trace       *)
(* binding checks on every replayed case.                                  *)
(***************************************************************************)
EXTENDS Ref

Subst(s, repl) == [i \in 1..Len(s) |-> IF IsNaN(s[i]) THEN repl ELSE s[i]]

\* aggregate_flox._np_grouped_op with np.add/multiply/maximum/minimum.reduceat
ReduceAt(op(_, _), s) == FoldSeq(op, s[1], Tail(s))

\* aggregate_flox._nan_grouped_op: substitute, reduce, then recover the
\* all-NaN groups.  SentinelDetect = TRUE is the variant that compares the
\* result with the +-inf substitute (the defect D4: an honest -inf maximum is
\* taken for "all NaN"); FALSE is detection by counting valid members.
FloxNanOp(op(_, _), s, repl, SentinelDetect) ==
  LET r == ReduceAt(op, Subst(s, repl)) IN
  IF IsInf(repl)
  THEN IF SentinelDetect
       THEN (IF r = repl THEN NaN ELSE r)
       ELSE (IF CountNotNull(s) = 0 THEN NaN ELSE r)
  ELSE r

FloxNanLen(s) == I(CountNotNull(s))

EngineFlox(func, s, SentinelDetect) ==
  CASE func = "sum"     -> ReduceAt(Add, s)
    [] func = "nansum"  -> FloxNanOp(Add, s, Zero, SentinelDetect)
    [] func = "prod"    -> ReduceAt(Mul, s)
    [] func = "nanprod" -> FloxNanOp(Mul, s, One, SentinelDetect)
    [] func = "max"     -> ReduceAt(Max2, s)
    [] func = "min"     -> ReduceAt(Min2, s)
    [] func = "nanmax"  -> FloxNanOp(Max2, s, NInf, SentinelDetect)
    [] func = "nanmin"  -> FloxNanOp(Min2, s, PInf, SentinelDetect)
    [] func = "count"   -> FloxNanLen(s)
    [] func = "mean"    -> Div(ReduceAt(Add, s), FloxNanLen(s))
    [] func = "nanmean" -> Div(FloxNanOp(Add, s, Zero, SentinelDetect), FloxNanLen(s))

FloxFuncs == {"sum", "nansum", "prod", "nanprod", "max", "min", "nanmax", "nanmin", "count", "mean", "nanmean"}

\* aggregate_npg: nansum / nanprod by substitution then the plain kernel
EngineNpg(func, s) ==
  CASE func = "nansum"  -> SumSeq(Subst(s, Zero))
    [] func = "nanprod" -> ProdSeq(Subst(s, One))
    [] func = "count"   -> I(CountNotNull(s))

NpgFuncs == {"nansum", "nanprod", "count"}

\* aggregate_npg._var_std_wrapper: shift by the group's first non-NaN element,
\* then the kernel's variance (shift invariance is what makes this sound)
ShiftByFirst(s) == LET f == FirstNotNull(s) IN [i \in 1..Len(s) |-> Sub(s[i], f)]
NpgVar(s, ddof, skipna) ==
  LET t == ShiftByFirst(s)
      u == IF skipna THEN DropNaN(t) ELSE t
  IN IF u = <<>> THEN NaN ELSE Var(u, ddof)

(***************************************************************************)
(* aggregate_flox.quantile_ : vectorised grouped quantile.                  *)
(* The complex-number partition sorts by (label, value) and sends every     *)
(* NaN-valued element to the END of the whole array, so the valid members   *)
(* of the groups are contiguous, group after group, and the start of group  *)
(* j is the cumulative count of VALID members of the groups before it.      *)
(*   vals, codes : the (unsorted) 1-D problem, codes 0..ngroups-1           *)
(*   MaskAllNaN  : TRUE models a kernel that answers NaN for a group with   *)
(*                 no valid member; FALSE is the literal index arithmetic   *)
(*                 (virtual index q*(0-1)+offset points before the group:   *)
(*                 the defect D5, a neighbour's value is returned)          *)
(***************************************************************************)
ValLt(a, b) == Lt(a, b)
SortedValid(vals, codes, g) == SortBy(ValLt, DropNaN(Members(vals, codes, g)))
RECURSIVE PartitionedValid(_, _, _)
PartitionedValid(vals, codes, n) ==
  IF n = 0 THEN <<>> ELSE PartitionedValid(vals, codes, n - 1) \o SortedValid(vals, codes, n - 1)
\* the array after cmplx.partition: valid members group by group, then the NaNs
Partitioned(vals, codes, ngroups) ==
  PartitionedValid(vals, codes, ngroups) \o [i \in 1..(Len(vals) - Len(PartitionedValid(vals, codes, ngroups))) |-> NaN]

RECURSIVE ValidBefore(_, _, _)
ValidBefore(vals, codes, g) == IF g = 0 THEN 0 ELSE ValidBefore(vals, codes, g - 1) + CountNotNull(Members(vals, codes, g - 1))

\* numpy take with a possibly negative index (wraps from the end)
TakeWrap(a, i0) == IF i0 >= 0 THEN a[i0 + 1] ELSE a[Len(a) + i0 + 1]

QuantileFlox(vals, codes, ngroups, g, q, skipna, MaskAllNaN) ==
  LET mem == Members(vals, codes, g)
      nvalid == CountNotNull(mem)
      a == Partitioned(vals, codes, ngroups)
      vi == Add(Mul(q, I(nvalid - 1)), I(ValidBefore(vals, codes, g)))   \* virtual index
      lo == vi[1] \div vi[2]                                           \* floor (also of negatives)
      hi == IF vi[1] % vi[2] = 0 THEN lo ELSE lo + 1
      gamma == Sub(vi, I(lo))
      loval == TakeWrap(a, lo)
      hival == TakeWrap(a, hi)
      lerp == Add(loval, Mul(Sub(hival, loval), gamma))
  IN IF mem = <<>> THEN NaN                          \* absent group: the fill
     ELSE IF ~skipna /\ nvalid # Len(mem) THEN NaN    \* nanmask
     ELSE IF MaskAllNaN /\ nvalid = 0 THEN NaN
     ELSE lerp
=============================================================================
