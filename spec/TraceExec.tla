------------------------------ MODULE TraceExec ------------------------------
(***************************************************************************)
(* Trace specification for executions of real graphs by the harness        *)
(* scheduler (C13, C03): the recorded run must be a behaviour of Exec.tla   *)
(* with PURE tasks.  Events (one per line, in execution order):             *)
(*   [ev |-> "graph", gid]                       a new graph starts          *)
(*   [ev |-> "run",   k, deps, dig, inb, ina]    task k executed             *)
(*   [ev |-> "rerun", k, deps, dig, inb, ina]    executed a second time      *)
(*   [ev |-> "ship",  k, deps, dig, inb, ina]    executed after a cloudpickle*)
(*                                               round trip of the task      *)
(* dig = digest of the output; inb / ina = digests of the inputs before and  *)
(* after the task ran (same order as deps).                                  *)
(* Clauses:  ready      every dependency was stored before the task ran      *)
(*           inputs     the task read exactly the stored values              *)
(*           pure       inputs unchanged by the task (ina = inb)             *)
(*           repeat     a re-execution / shipped execution reproduces the    *)
(*                      stored value                                         *)
(***************************************************************************)
EXTENDS Integers, Sequences, FiniteSets, Json, IOUtils, TLC

VARIABLES l, store
TraceLog == ndJsonDeserialize(IOEnv.TRACE_FILE)

Init == l = 1 /\ store = <<>>       \* store: sequence of <<k, digest>> pairs (small graphs)

Lookup(st, k) == IF \E i \in 1..Len(st) : st[i][1] = k
                 THEN (CHOOSE i \in 1..Len(st) : st[i][1] = k) ELSE 0
Get(st, k) == st[Lookup(st, k)][2]

Bad(r) ==
  LET ready == \A i \in 1..Len(r.deps) : Lookup(store, r.deps[i]) # 0
      inputs == ready /\ \A i \in 1..Len(r.deps) : r.inb[i] = Get(store, r.deps[i])
      pure == r.ina = r.inb
      repeat == (r.ev \in {"rerun", "ship"}) => (Lookup(store, r.k) # 0 /\ Get(store, r.k) = r.dig)
  IN (IF ready THEN {} ELSE {"ready"}) \cup (IF ~ready \/ inputs THEN {} ELSE {"inputs"})
     \cup (IF pure THEN {} ELSE {"pure"}) \cup (IF repeat THEN {} ELSE {"repeat"})

Next ==
  /\ l <= Len(TraceLog)
  /\ LET r == TraceLog[l] IN
     IF r.ev = "graph" THEN store' = <<>>
     ELSE /\ (IF Bad(r) = {} THEN TRUE ELSE PrintT(<<"FAIL", r.id, Bad(r), r.k>>))
          /\ store' = IF r.ev = "run" /\ Lookup(store, r.k) = 0 THEN Append(store, <<r.k, r.dig>>) ELSE store
  /\ l' = l + 1

Spec == Init /\ [][Next]_<<l, store>>
TraceAccepted == TLCGet("stats").diameter = Len(TraceLog) + 1
=============================================================================
