------------------------------ MODULE TraceScan ------------------------------
(* Trace specification for grouped scans.  Lines:                                 *)
(*   kind "return"  a completed groupby_scan call: out must be RefScan (positions *)
(*                  with a missing label are unspecified) and have the input's    *)
(*                  length                                                         *)
(*   kind "reduce" / "scan" / "binop"   one task of a real dask_groupby_scan graph *)
(*                  executed by the harness scheduler, with its projected inputs   *)
(*                  and output (ScanState), checked against Scan.tla               *)
EXTENDS Scan, Json, IOUtils, TLC
VARIABLE l
TraceLog == ndJsonDeserialize(IOEnv.TRACE_FILE)

\* state after a step whose right operand was a block result: per group, the last non-NaN of
\* (the left entry, then the adjusted entries of that group in positional order)
StateAfterResult(L, res, codes) ==
  LET gs == SortInts(Dedup(L.groups \o codes))
      val(g) == LastNotNull((IF Has(L, g) THEN <<Get(L, g, NaN)>> ELSE <<>>) \o Members(res, codes, g))
  IN [groups |-> gs, vals |-> [k \in 1..Len(gs) |-> val(gs[k])]]

StateOk(exp, got) == exp.groups = got.groups /\ Len(got.vals) = Len(exp.vals) /\ \A k \in 1..Len(exp.vals) : Matches(exp.vals[k], got.vals[k])
SeqOk(exp, got) == Len(exp) = Len(got) /\ \A i \in 1..Len(exp) : Matches(exp[i], got[i])

Bad(r) ==
  CASE r.kind = "return" ->
         (IF Len(r.out) = Len(r.vals) THEN {} ELSE {"shape"})
         \cup (IF Len(r.out) = Len(r.vals) /\ ~SeqOk(RefScan(r.func, r.vals, r.codes), r.out) THEN {"values"} ELSE {})
    [] r.kind = "reduce" -> IF StateOk(BlockState(r.func, r.vals, r.codes), r.out.state) THEN {} ELSE {"reduce"}
    [] r.kind = "scan"   -> IF SeqOk(BlockScan(r.func, r.vals, r.codes), r.out.result.vals) THEN {} ELSE {"scan"}
    [] r.kind = "binop"  ->
         LET L == r.left.state IN
         IF r.right.hasresult
         THEN LET res == BinopResult(r.func, L, r.right.result.vals, r.right.result.codes) IN
              (IF r.out.hasresult /\ SeqOk(res, r.out.result.vals) THEN {} ELSE {"binop-result"})
              \cup (IF StateOk(StateAfterResult(L, res, r.right.result.codes), r.out.state) THEN {} ELSE {"binop-state"})
         ELSE (IF ~r.out.hasresult /\ StateOk(BinopState(r.func, L, r.right.state), r.out.state) THEN {} ELSE {"binop-state"})

Init == l = 1
Next == /\ l <= Len(TraceLog)
        /\ LET r == TraceLog[l] IN IF Bad(r) = {} THEN TRUE ELSE PrintT(<<"FAIL", r.id, Bad(r)>>)
        /\ l' = l + 1
Spec == Init /\ [][Next]_l
TraceAccepted == TLCGet("stats").diameter = Len(TraceLog) + 1
=============================================================================
