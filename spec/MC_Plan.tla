------------------------------- MODULE MC_Plan -------------------------------
(* The full configuration product of the decision model.                        *)
EXTENDS Plan, TLC
VARIABLE c
Cfgs == [fclass : {"plain", "arg", "nanfl", "fl", "bwonly"}, engine : {"none", "numpy", "numba", "flox", "numbagg"},
         method : {"none", "map-reduce", "cohorts", "blockwise"}, reindex : {"none", "true", "false"},
         arrDask : BOOLEAN, byDask : BOOLEAN, expected : BOOLEAN, dtypeArg : BOOLEAN, floatData : BOOLEAN,
         allAxes : BOOLEAN, byNdim : {1, 2}, pref : {"blockwise", "cohorts", "map-reduce"}, hasCohorts : BOOLEAN, hasCohortsM : BOOLEAN, oneBlock : BOOLEAN]
\* planner facts that can occur together
Consistent(x) == /\ (x.pref = "cohorts" => x.hasCohorts)
                 /\ (x.hasCohorts => x.hasCohortsM)          \* merging never loses the cohorts
                 /\ (x.pref = "blockwise" => x.hasCohorts \/ TRUE)
                 /\ (x.byNdim = 1 => x.allAxes)
                 /\ (x.oneBlock => x.pref = "blockwise")
Init == c \in {x \in Cfgs : Consistent(x)}
Next == UNCHANGED c
Spec == Init /\ [][Next]_c

Total == Outcome(c).kind \in CleanKinds
\* C19: wherever an explicit map-reduce plan is accepted, leaving the method to flox is accepted too
AutoWorksWhereMapReduceDoes ==
  (c.method = "map-reduce" /\ Outcome(c).kind = "ok") => Outcome([c EXCEPT !.method = "none"]).kind = "ok"
\* the plan reached automatically meets its own preconditions
AutoPlanPreconditions ==
  LET o == Outcome(c) IN
  (c.method = "none" /\ o.kind = "ok" /\ o.method # "eager") =>
     /\ (o.method = "cohorts" => ~c.byDask /\ ~o.rb /\ c.allAxes)
     /\ (o.method = "blockwise" => c.allAxes)
     /\ (o.rb => c.expected \/ ~c.byDask)
=============================================================================
