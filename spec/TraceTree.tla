------------------------------ MODULE TraceTree ------------------------------
(* Conformance of the REAL graphs' reduction trees with Tree.tla.  One line =  *)
(* one tree observed in a real graph: n leaf blocks, split_every k, and for    *)
(* every level above the leaves the ordered leaf sequence below each node.     *)
(* Accepted: exactly the predicted levels, optionally followed by extra levels *)
(* of single-child nodes (the math.log deviation), which must keep the root.   *)
EXTENDS Tree, Json, IOUtils, TLC
VARIABLE l
TraceLog == ndJsonDeserialize(IOEnv.TRACE_FILE)

\* property-level clause: every leaf exactly once and in positional order at every level, single root
LeavesOk(r) ==
  /\ \A i \in 1..Len(r.levels) : AllLeavesInOrder(r.levels[i], r.n)
  /\ Len(r.levels) >= 1 /\ Len(r.levels[Len(r.levels)]) = 1
\* model-level clause (a difference is DRIFT, not an alarm): the shape is the predicted one
ShapeOk(r) ==
  LET pred == TreeLevels(r.n, r.k)
      d == Len(pred)
  IN /\ Len(r.levels) >= d
     /\ \A i \in 1..d : r.levels[i] = pred[i]
     /\ \A i \in (d + 1)..Len(r.levels) : r.levels[i] = pred[d]
Bad(r) == (IF LeavesOk(r) THEN {} ELSE {"tree-leaves"}) \cup (IF ShapeOk(r) THEN {} ELSE {"tree-shape"})

Init == l = 1
Next == /\ l <= Len(TraceLog)
        /\ (IF Bad(TraceLog[l]) = {} THEN TRUE ELSE PrintT(<<"FAIL", TraceLog[l].id, Bad(TraceLog[l]), TreeLevels(TraceLog[l].n, TraceLog[l].k)>>))
        /\ l' = l + 1
Spec == Init /\ [][Next]_l
TraceAccepted == TLCGet("stats").diameter = Len(TraceLog) + 1
=============================================================================
