------------------------------- MODULE TraceDtype ------------------------------
(* Trace specification for C11.  One line = one executed cell:                     *)
(*   func, indtype, user, fill, path (engine/strategy/chunking tag)                 *)
(*   dtype        dtype of the computed result                                       *)
(*   announced    what the lazy result announced (dtype, shape, chunks) — "-" eager  *)
(*   blocks_ok    every computed block has the announced dtype, its announced chunk  *)
(*                shape, and the announced array type                                *)
(* Clauses: "dtype" (= Dtypes!RefDtype, hence independent of the path), "announced"  *)
EXTENDS Dtypes, Json, IOUtils, TLC
VARIABLE l
TraceLog == ndJsonDeserialize(IOEnv.TRACE_FILE)
Bad(r) ==
  (IF r.dtype = RefDtype(r.func, r.indtype, r.user, r.fill) THEN {} ELSE {"dtype"})
  \cup (IF r.lazy /\ (r.announced # r.dtype \/ ~r.blocks_ok \/ r.announced_shape # r.shape) THEN {"announced"} ELSE {})
Init == l = 1
Next == /\ l <= Len(TraceLog)
        /\ LET r == TraceLog[l] IN IF Bad(r) = {} THEN TRUE ELSE PrintT(<<"FAIL", r.id, Bad(r), RefDtype(r.func, r.indtype, r.user, r.fill)>>)
        /\ l' = l + 1
Spec == Init /\ [][Next]_l
TraceAccepted == TLCGet("stats").diameter = Len(TraceLog) + 1
=============================================================================
