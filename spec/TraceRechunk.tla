----------------------------- MODULE TraceRechunk ----------------------------
(* Conformance of the REAL rechunk helpers (array and xarray flavours).  One line  *)
(* = one call: labels, old chunks, arguments, the chunks of the returned object     *)
(* along the axis, and whether shape / dtype / values / the other axes' chunks were *)
(* preserved.  Clauses: "post" (the C17 postconditions), "data" (same shape, dtype,  *)
(* values, other axes untouched), "drift" (differs from the transcription; never an  *)
(* alarm).                                                                           *)
EXTENDS Rechunk, Json, IOUtils, TLC
VARIABLE l
TraceLog == ndJsonDeserialize(IOEnv.TRACE_FILE)
ToSet(s) == {s[i] : i \in 1..Len(s)}

Bad(r) ==
  LET n == Len(r.labels)
      post == IF r.kind = "blockwise"
              THEN ValidChunks(r.new, n) /\ (NonDecreasing(r.labels) => NoGroupStraddles(r.new, r.labels))
              ELSE /\ ValidChunks(r.new, n)
                   /\ ForcedStartChunks(r.new, r.labels, ToSet(r.force))
                   /\ (~r.ignore => OldKept(r.new, r.chunks))
      model == IF r.kind = "blockwise" THEN OptimalChunks(r.chunks, r.labels)
               ELSE CohortChunks(r.labels, r.chunks, ToSet(r.force), r.chunksize, r.ignore)
  IN (IF post THEN {} ELSE {"post"}) \cup (IF r.data_ok THEN {} ELSE {"data"}) \cup (IF model = r.new THEN {} ELSE {"drift"})

Init == l = 1
Next == /\ l <= Len(TraceLog)
        /\ LET r == TraceLog[l] IN IF Bad(r) = {} THEN TRUE ELSE PrintT(<<"FAIL", r.id, Bad(r)>>)
        /\ l' = l + 1
Spec == Init /\ [][Next]_l
TraceAccepted == TLCGet("stats").diameter = Len(TraceLog) + 1
=============================================================================
