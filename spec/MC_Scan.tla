-------------------------------- MODULE MC_Scan ------------------------------
(* C10 at design level: for every input (values x interleaved labels), every     *)
(* chunking of the axis (hence every prefix-tree shape up to MaxLen blocks):     *)
(*   Assoc      the state operator is associative on the block states            *)
(*   Prefix     left-fold of the block states + final step = the per-group       *)
(*              sequential NumPy scan (RefScan), position by position            *)
(*   Mirror     bfill is ffill on the reversed input, reversed back              *)
EXTENDS Scan, TLC
CONSTANTS MaxLen, Func
Alpha == {<<-1,1>>, <<0,1>>, <<2,1>>, <<0,0>>}
Labels == {0, 1, 2}
VARIABLES vals, codes, cuts
vars == <<vals, codes, cuts>>
Init == vals = <<>> /\ codes = <<>> /\ cuts = <<>>
Grow == /\ Len(vals) < MaxLen
        /\ \E v \in Alpha, c \in Labels, cut \in BOOLEAN :
             vals' = Append(vals, v) /\ codes' = Append(codes, c) /\ cuts' = Append(cuts, cut)
Next == Grow
Spec == Init /\ [][Next]_vars

\* bfill: work on the reversed problem
In(s) == IF Func = "bfill" THEN Reverse(s) ELSE s
V == In(vals)
C == In(codes)
Ends == LET raw == SelectSeq(Indices(vals), LAMBDA i : cuts[i] \/ i = Len(vals)) IN
        IF Func = "bfill" THEN \* the block boundaries of the reversed array
             LET n == Len(vals)
                 startsRev == [k \in 1..Len(raw) |-> n - raw[Len(raw) + 1 - k] + 1]   \* not needed explicitly
             IN SelectSeq(Indices(vals), LAMBDA i : i = n \/ (i < n /\ cuts[n - i]))
        ELSE raw
NB == Len(Ends)
BStart(b) == IF b = 1 THEN 1 ELSE Ends[b - 1] + 1
BV(b) == SubSeq(V, BStart(b), Ends[b])
BC(b) == SubSeq(C, BStart(b), Ends[b])
St(b) == BlockState(Func, BV(b), BC(b))

RECURSIVE PrefixState(_)
PrefixState(b) == IF b = 0 THEN EmptyState ELSE BinopState(Func, PrefixState(b - 1), St(b))

Assoc == vals # <<>> =>
  \A b \in 1..(NB - 2) :
     BinopState(Func, BinopState(Func, St(b), St(b + 1)), St(b + 2)) = BinopState(Func, St(b), BinopState(Func, St(b + 1), St(b + 2)))

Computed == LET RECURSIVE Cat(_)
                Cat(b) == IF b = 0 THEN <<>>
                          ELSE Cat(b - 1) \o BinopResult(Func, PrefixState(b - 1), BlockScan(Func, BV(b), BC(b)), BC(b))
            IN Cat(NB)
Out == IF Func = "bfill" THEN Reverse(Computed) ELSE Computed

Prefix == vals # <<>> => \A i \in 1..Len(vals) : Matches(RefScan(Func, vals, codes)[i], Out[i])
=============================================================================
