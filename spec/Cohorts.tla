------------------------------- MODULE Cohorts -------------------------------
(***************************************************************************)
(* flox/core.py:find_group_cohorts transcribed step by step.                *)
(* Input: B, the label-by-chunk incidence (B[c] = set of labels occurring   *)
(* in chunk c, chunks 1..Len(B) in flat block order), nl = number of        *)
(* labels (0..nl-1, some possibly absent), merge, singleChunks (every chunk *)
(* has size one along every axis).                                          *)
(* Output: [method, cohorts, failed] where cohorts is a set of              *)
(* [chunks |-> set of chunks, labels |-> set of labels] and failed = TRUE   *)
(* when the code's internal assertion (no label lost) would fire.           *)
(* The dictionary keyed by the UNION OF BLOCKS of a merged cohort is        *)
(* modelled with overwrite semantics: two merged cohorts with the same      *)
(* block union collide and the earlier one is silently dropped.             *)
(***************************************************************************)
EXTENDS Integers, Sequences, FiniteSets

Chunks(B) == 1..Len(B)
ChunksOf(B, l) == {c \in Chunks(B) : l \in B[c]}
Present(B, nl) == {l \in 0..(nl - 1) : ChunksOf(B, l) # {}}

\* exact cohorts: labels occurring in exactly the same chunks
ExactCohorts(B, nl) ==
  {[chunks |-> S, labels |-> {l \in Present(B, nl) : ChunksOf(B, l) = S}] : S \in {ChunksOf(B, l) : l \in Present(B, nl)}}

Min(S) == CHOOSE x \in S : \A y \in S : x <= y
FirstOfExact(B, nl, l) == l = Min({m \in Present(B, nl) : ChunksOf(B, m) = ChunksOf(B, l)})

NNZ(B, nl) == Cardinality({<<c, l>> \in Chunks(B) \X Present(B, nl) : l \in B[c]})

\* containment row of label i after thresholding at 0.75 and zeroing the rows of repeated labels
Row(B, nl, i) ==
  IF ~FirstOfExact(B, nl, i) THEN {}
  ELSE {j \in Present(B, nl) :
          LET inter == Cardinality(ChunksOf(B, i) \cap ChunksOf(B, j)) IN
          inter > 0 /\ 4 * inter >= 3 * Cardinality(ChunksOf(B, j))}

\* iteration order: most overlaps first; ties: higher label first (reversed stable argsort); rows without overlap dropped
RECURSIVE OrderFrom(_, _, _)
OrderFrom(B, nl, todo) ==
  IF todo = {} THEN <<>>
  ELSE LET best == CHOOSE i \in todo : \A j \in todo :
                      \/ Cardinality(Row(B, nl, i)) > Cardinality(Row(B, nl, j))
                      \/ (Cardinality(Row(B, nl, i)) = Cardinality(Row(B, nl, j)) /\ i >= j)
       IN <<best>> \o OrderFrom(B, nl, todo \ {best})
Order(B, nl) == OrderFrom(B, nl, {i \in Present(B, nl) : Row(B, nl, i) # {}})

UnionChunks(B, labels) == UNION {ChunksOf(B, l) : l \in labels}

\* the merge loop: state = [merged |-> set of labels, dict |-> function chunkset -> labels (as set of pairs)]
RECURSIVE MergeLoop(_, _, _, _, _)
MergeLoop(B, nl, order, k, st) ==
  IF k > Len(order) THEN st
  ELSE LET i == order[k] IN
       IF i \in st.merged THEN MergeLoop(B, nl, order, k + 1, st)
       ELSE LET cohort == Row(B, nl, i) \ st.merged IN
            IF cohort = {} THEN MergeLoop(B, nl, order, k + 1, st)
            ELSE LET key == UnionChunks(B, cohort)
                     dict2 == {p \in st.dict : p.chunks # key} \cup {[chunks |-> key, labels |-> cohort]}   \* overwrite on equal key
                 IN MergeLoop(B, nl, order, k + 1, [merged |-> st.merged \cup cohort, dict |-> dict2])

Merged(B, nl) == MergeLoop(B, nl, Order(B, nl), 1, [merged |-> {}, dict |-> {}])

LabelsIn(cohorts) == UNION {p.labels : p \in cohorts}
NLabelsIn(cohorts) == LET RECURSIVE S(_)
                          S(cs) == IF cs = {} THEN 0 ELSE LET p == CHOOSE q \in cs : TRUE IN Cardinality(p.labels) + S(cs \ {p})
                      IN S(cohorts)

FindGroupCohorts(B, nl, merge, singleChunks) ==
  LET pres == Present(B, nl)
      exact == ExactCohorts(B, nl)
  IN
  IF nl = 0 THEN [method |-> "map-reduce", cohorts |-> {}, failed |-> FALSE]      \* every label missing: no group, no cohort
  ELSE IF Len(B) = 1 THEN [method |-> "blockwise", cohorts |-> {[chunks |-> {1}, labels |-> 0..(nl - 1)]}, failed |-> FALSE]
  ELSE IF pres = {} THEN [method |-> "map-reduce", cohorts |-> {}, failed |-> FALSE]
  ELSE IF \A l \in pres : Cardinality(ChunksOf(B, l)) = 1
       THEN [method |-> "blockwise", cohorts |-> exact, failed |-> FALSE]
  ELSE IF Cardinality(exact) = 1
       THEN [method |-> "map-reduce", cohorts |-> IF merge THEN exact ELSE {}, failed |-> FALSE]
  ELSE LET oneGroupPerChunk == \A c \in Chunks(B) : Cardinality(B[c] \cap pres) = 1
           \* np.bincount over the chunk indices of all cohort keys == 1 everywhere (a chunk below the
           \* largest used index that appears in no key counts 0 and defeats the test)
           used == UNION {p.chunks : p \in exact}
           maxUsed == CHOOSE c \in used : \A d \in used : d <= c
           noOverlap == \A c \in 1..maxUsed : Cardinality({p \in exact : c \in p.chunks}) = 1
       IN
       IF oneGroupPerChunk \/ singleChunks \/ noOverlap
       THEN [method |-> "cohorts", cohorts |-> exact, failed |-> FALSE]
       ELSE LET sparse == 5 * NNZ(B, nl) <= 2 * (Len(B) * Cardinality(pres)) IN   \* sparsity <= 0.4
            IF ~sparse /\ ~merge THEN [method |-> "map-reduce", cohorts |-> {}, failed |-> FALSE]
            ELSE LET m == Merged(B, nl) IN
                 [method |-> IF sparse THEN "cohorts" ELSE "map-reduce",
                  cohorts |-> m.dict,
                  failed |-> (NLabelsIn(m.dict) # Cardinality(pres)) \/ (Cardinality(m.merged) # NLabelsIn(m.dict))]

(***************************************************************************)
(* The property-side relation (C09), independent of the algorithm.          *)
(***************************************************************************)
\* every present label in exactly one cohort, no absent label beyond the single-chunk convention
IsPartition(r, B, nl) ==
  /\ \A l \in Present(B, nl) : Cardinality({p \in r.cohorts : l \in p.labels}) = 1
\* the block set of a cohort contains every block holding one of its labels
Covers(r, B) == \A p \in r.cohorts : \A l \in p.labels : ChunksOf(B, l) \subseteq p.chunks
\* blockwise only if every label is confined to one block
BlockwiseOnlyIfConfined(r, B, nl) ==
  r.method = "blockwise" => \A l \in Present(B, nl) : Cardinality(ChunksOf(B, l)) = 1

\* an empty cohort set is allowed only with the advice "map-reduce" (which does not use it)
Sound(r, B, nl) ==
  /\ ~r.failed
  /\ BlockwiseOnlyIfConfined(r, B, nl)
  /\ Covers(r, B)
  /\ (r.cohorts # {} => IsPartition(r, B, nl))
  /\ (r.cohorts = {} => r.method = "map-reduce")
=============================================================================
