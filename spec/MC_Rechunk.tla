----------------------------- MODULE MC_Rechunk ------------------------------
(* All sorted label runs up to MaxLen with all chunkings (blockwise helper) and  *)
(* label patterns x forced sets x chunksize hints (cohorts helper).              *)
EXTENDS Rechunk, TLC
CONSTANTS MaxLen, NLab
VARIABLES labels, cuts
vars == <<labels, cuts>>
Init == labels = <<>> /\ cuts = <<>>
Grow == /\ Len(labels) < MaxLen
        /\ \E g \in 0..(NLab - 1), cut \in BOOLEAN :
             labels' = Append(labels, g) /\ cuts' = Append(cuts, cut)
Next == Grow
Spec == Init /\ [][Next]_vars

n == Len(labels)
Ends == {i \in 1..n : cuts[i] \/ i = n}
EndSeq == SetToSortedSeq(Ends)
Chunks == [k \in 1..Len(EndSeq) |-> EndSeq[k] - (IF k = 1 THEN 0 ELSE EndSeq[k - 1])]

BlockwiseOk ==
  (n > 0 /\ NonDecreasing(labels)) =>
     LET new == OptimalChunks(Chunks, labels) IN ValidChunks(new, n) /\ NoGroupStraddles(new, labels)
\* for arbitrary (non sequential) labels the helper must at least return valid chunks
BlockwiseValid == n > 0 => ValidChunks(OptimalChunks(Chunks, labels), n)

CohortsOk ==
  n > 0 =>
    \A force \in (SUBSET (0..(NLab - 1))) \ {{}} : \A cs \in {1, 2, 3} : \A ign \in BOOLEAN :
       (\E i \in 1..n : labels[i] \in force) =>
          LET new == CohortChunks(labels, Chunks, force, cs, ign) IN
          /\ ValidChunks(new, n)
          /\ ForcedStartChunks(new, labels, force)
          /\ (~ign => OldKept(new, Chunks))
=============================================================================
