--------------------------------- MODULE XrDims --------------------------------
(***************************************************************************)
(* Dimension algebra of flox.xarray.xarray_reduce vs xarray's own groupby   *)
(* (C15).  An object is its dimension sequence; the grouper has dimensions   *)
(* gdims (a subsequence of the object's, or an external array's); `reduce`   *)
(* is the set of dimensions reduced (default: the grouper's; "all" for       *)
(* dim=...).  Native xarray's rule (use_flox=False):                         *)
(*   - 1-D grouper reduced over its own dimension: that dimension is         *)
(*     REPLACED IN PLACE by the group dimension;                             *)
(*   - otherwise the reduced dimensions disappear and the group dimension is *)
(*     appended last.                                                        *)
(***************************************************************************)
EXTENDS Integers, Sequences, FiniteSets
ToSet(s) == {s[i] : i \in 1..Len(s)}
NativeDims(objdims, gdims, reduce, gname) ==
  IF Len(gdims) = 1 /\ reduce = {gdims[1]} /\ gdims[1] \in ToSet(objdims)
  THEN [i \in 1..Len(objdims) |-> IF objdims[i] = gdims[1] THEN gname ELSE objdims[i]]
  ELSE SelectSeq(objdims, LAMBDA d : d \notin reduce) \o <<gname>>
=============================================================================
