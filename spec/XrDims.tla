--------------------------------- MODULE XrDims --------------------------------
(***************************************************************************)
(* Dimension algebra of flox.xarray.xarray_reduce vs xarray's own groupby   *)
(* (C15).  An object is its dimension sequence; the grouper has dimensions   *)
(* gdims (a subsequence of the object's, or an external array's); `reduce`   *)
(* is the set of dimensions reduced (default: the grouper's; "all" for       *)
(* dim=...).  Native xarray's rule (use_flox=False):                         *)
(*   - DataArray, 1-D grouper: the group dimension takes the place of the     *)
(*     grouper's own dimension, the other reduced dimensions disappear;      *)
(*   - DataArray, 2-D grouper: it is stacked, the group dimension comes last;*)
(*   - Dataset: the group dimension comes first.                             *)
(***************************************************************************)
EXTENDS Integers, Sequences, FiniteSets
ToSet(s) == {s[i] : i \in 1..Len(s)}
\* position (1-based) of the first reduced dimension of the object
FirstReduced(objdims, reduce) == CHOOSE i \in 1..Len(objdims) : objdims[i] \in reduce /\ \A j \in 1..(i - 1) : objdims[j] \notin reduce

\* DataArray: the group dimension takes the place of the first reduced dimension, the other reduced
\* dimensions disappear (for a 1-D grouper reduced over its own dimension this is "replaced in place").
\* Dataset: the group dimension comes first.
NativeDimsOf(objdims, gdims, reduce, gname, isDataset) ==
  LET kept == SelectSeq(objdims, LAMBDA d : d \notin reduce) IN
  IF isDataset \/ ~(\E i \in 1..Len(objdims) : objdims[i] \in reduce) THEN <<gname>> \o kept
  ELSE IF Len(gdims) > 1 THEN kept \o <<gname>>        \* a multi-dimensional grouper is stacked: its dimension comes last
  ELSE LET f == IF \E i \in 1..Len(objdims) : objdims[i] = gdims[1]
                THEN CHOOSE i \in 1..Len(objdims) : objdims[i] = gdims[1]     \* the place of the grouper's own dimension
                ELSE FirstReduced(objdims, reduce) IN
       SelectSeq(SubSeq(objdims, 1, f - 1), LAMBDA d : d \notin reduce) \o <<gname>> \o SelectSeq(SubSeq(objdims, f + 1, Len(objdims)), LAMBDA d : d \notin reduce)

NativeDims(objdims, gdims, reduce, gname) == NativeDimsOf(objdims, gdims, reduce, gname, FALSE)
=============================================================================
